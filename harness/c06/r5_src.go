package c06

// Round 5: add-files lines of type file with a src= option whose source is a multiply linked inode.
//
// The class: a hard-link group (link count 2..4) of which only some names are in the build root /
// recorded by a (selected or unselected) package, the others orphans or outside the build root,
// together with `file NAME src=...` lines whose source is one of the links -- written as
// $$stageroot/<path> or as an absolute host path --, with and without mod=/uid=/gid= overrides,
// NAME sorting before, between or after the names of the group, NAME absent from the build root,
// an unrelated file there, or itself a link of that inode; two src= lines sharing one source;
// controls with a singly linked source and src=/dev/null.

import (
	"os"
	"sort"
	"strings"
	"syscall"

	"lcverif/common"
	q "lcverif/coqfmt"
	"lcverif/rng"
)

const extMark = "@EXT@"

func snodeTerm(n SNode) string {
	switch n.Kind {
	case "dir":
		return "NDir"
	case "file":
		if n.Group > 0 {
			return "(NFile (Some " + q.N(n.Group) + "))"
		}
		return "(NFile None)"
	case "link":
		return q.App("NLink", q.Hx(n.Target))
	case "dev":
		return "NDev"
	case "fifo":
		return "NFifo"
	case "sock":
		return "NSock"
	}
	panic("unknown scanned kind " + n.Kind)
}

// lstatOne: what lstat finds at one literal path (nil = nothing / error)
func lstatOne(p string, groups map[[2]uint64]uint64) *SNode {
	var st syscall.Stat_t
	if err := syscall.Lstat(p, &st); err != nil {
		return nil
	}
	n := &SNode{Path: p}
	switch st.Mode & syscall.S_IFMT {
	case syscall.S_IFDIR:
		n.Kind = "dir"
	case syscall.S_IFREG:
		n.Kind = "file"
		if st.Nlink > 1 {
			id := [2]uint64{uint64(st.Dev), st.Ino}
			g, ok := groups[id]
			if !ok {
				g = uint64(len(groups) + 1)
				groups[id] = g
			}
			n.Group = g
		}
	case syscall.S_IFLNK:
		n.Kind = "link"
		t, err := os.Readlink(p)
		if err != nil {
			return nil
		}
		n.Target = t
	case syscall.S_IFCHR, syscall.S_IFBLK:
		n.Kind = "dev"
	case syscall.S_IFIFO:
		n.Kind = "fifo"
	case syscall.S_IFSOCK:
		n.Kind = "sock"
	default:
		return nil
	}
	return n
}

// srcTokens: the values of the src= options of a line that are absolute paths (as far as a
// simple scan can tell; quoting of option values is not generated for src=)
func srcTokens(line string) []string {
	var out []string
	rest := line
	for {
		i := strings.Index(rest, "src=")
		if i < 0 {
			return out
		}
		rest = rest[i+4:]
		j := strings.IndexAny(rest, " \t")
		v := rest
		if j >= 0 {
			v = rest[:j]
		}
		v = strings.Trim(v, `"'`)
		if strings.HasPrefix(v, "/") {
			out = append(out, v)
		}
	}
}

// prepareExt creates the outside files under base/ext, replaces the placeholder in the script by
// that directory and returns the Coq term of the table "absolute host path |-> lstat result" for
// every path the script can refer to.
func prepareExt(base string, in Input, first map[int]string, groups map[[2]uint64]uint64) (Input, string) {
	extDir := base + "/ext"
	if len(in.Ext) > 0 {
		nodes := append([]Node{}, in.Ext...)
		have := map[string]bool{"/": true}
		for _, n := range in.Ext {
			for d := parentOf(string(n.Path)); !have[d]; d = parentOf(d) {
				have[d] = true
				nodes = append(nodes, Node{Path: B(d), Kind: "dir"})
			}
		}
		if err := materialiseInto(extDir, nodes, first); err != nil {
			panic(err)
		}
	}
	script := make([]B, len(in.Script))
	for i, l := range in.Script {
		script[i] = B(strings.ReplaceAll(string(l), extMark, extDir))
	}
	in.Script = script
	seen := map[string]bool{}
	var paths []string
	add := func(p string) {
		if !seen[p] {
			seen[p] = true
			paths = append(paths, p)
		}
	}
	if len(in.Ext) > 0 {
		ns, err := scanInto(extDir, groups)
		if err != nil {
			panic(err)
		}
		for _, n := range ns {
			if n.Path != "/" {
				add(extDir + n.Path)
			}
		}
	}
	if in.UseFile {
		for _, l := range in.Script {
			for _, p := range srcTokens(string(l)) {
				add(p)
			}
		}
	}
	sort.Strings(paths)
	var ts []string
	for _, p := range paths {
		if n := lstatOne(p, groups); n != nil {
			ts = append(ts, q.Pair(q.Hx(p), snodeTerm(*n)))
		}
	}
	return in, q.List(ts)
}

// ---- generator ----

var srcDirs = []string{"/bin", "/etc", "/etc/skel", "/opt/app", "/usr/share/skel", "/usr/share/defaults", "/usr/lib64/tmpl",
	"/var/lib/misc", "/srv/www", "/zz", "/a0", "/usr/share/skel/sub"}
var srcBases = []string{"motd", "motd.dist", "issue", "profile", "a", "zz", "m", "conf", "default.cfg", "0first", "~last", "Mid", "n1", "n2", "skel.rc"}
var srcOpts = []string{"", "", "", " mod=0600", " mod=0640 uid=3", " uid=7", " gid=5", " uid=3:4 mod=0444", " mod=4755"}

// plain: usable inside a src= value without quoting
func srcPlainName(r *rng.R) string {
	n := r.Pick(srcBases)
	if r.Chance(1, 3) {
		n += r.Pick([]string{".1", "-x", "_b", "2"})
	}
	return n
}

type srcPlan struct {
	lines []string // add-files lines (with the placeholder for outside paths)
	ext   []Node
}

// genSrcClass extends the tree with hard-link groups, records some of their names for packages
// (record(i, path, kind)) and returns src= lines referring to them.
func genSrcClass(r *rng.R, t *tb, npk int, want map[int]bool, record func(i int, path, kind string)) srcPlan {
	var plan srcPlan
	var wanted, unwanted []int
	for i := 0; i < npk; i++ {
		if want[i] {
			wanted = append(wanted, i)
		} else {
			unwanted = append(unwanted, i)
		}
	}
	extN := 0
	extName := func() string {
		extN++
		return "/" + r.Pick([]string{"skel", "files", "s"}) + "/" + srcPlainName(r) + "." + string(rune('a'+extN))
	}
	ngroups := 1
	if r.Chance(1, 4) {
		ngroups = 2
	}
	for gi := 0; gi < ngroups; gi++ {
		k := 2 + r.Intn(3) // link count 2..4
		t.group++
		g := t.group
		var inside []string // names of the group in the build root
		nOutside := 0
		if r.Chance(1, 3) {
			nOutside = 1 // one link lives outside the build root
		}
		if r.Chance(1, 10) {
			nOutside = k // the whole group is outside
		}
		for j := 0; j < k-nOutside; j++ {
			for try := 0; try < 5; try++ {
				d := r.Pick(srcDirs)
				if j > 0 && r.Bool() {
					d = parentOf(inside[0]) // often in one directory
				}
				p := d + "/" + srcPlainName(r)
				if t.add(Node{Path: B(p), Kind: "file", Group: g, Content: B("shared\n")}) {
					inside = append(inside, p)
					break
				}
			}
		}
		var outside []string
		for j := 0; j < nOutside; j++ {
			p := extName()
			plan.ext = append(plan.ext, Node{Path: B(p), Kind: "file", Group: g, Content: B("shared\n")})
			outside = append(outside, p)
		}
		if len(inside)+len(outside) < 2 {
			continue
		}
		// which names are staged: at least one through a selected package (when there is one inside),
		// some through an unselected one, the rest are orphans
		staged := 0
		for idx, p := range inside {
			switch x := r.Intn(10); {
			case x < 6 || (idx == len(inside)-1 && staged == 0):
				if len(wanted) > 0 {
					record(wanted[r.Intn(len(wanted))], p, "file")
					staged++
				}
			case x < 8:
				if len(unwanted) > 0 {
					record(unwanted[r.Intn(len(unwanted))], p, "file")
				}
			}
		}
		// the source: a link of the group, written inside or outside
		srcOf := func() string {
			if len(outside) > 0 && (len(inside) == 0 || r.Chance(1, 2)) {
				return extMark + r.Pick(outside)
			}
			return "$$stageroot" + r.Pick(inside)
		}
		// the user's name
		userName := func() string {
			switch x := r.Intn(12); {
			case x < 7: // a name of its own, anywhere in the order
				for try := 0; try < 5; try++ {
					p := r.Pick(srcDirs) + "/" + srcPlainName(r)
					if r.Chance(1, 6) {
						p = r.Pick(srcDirs) + "/" + genName(r)
					}
					if !scriptable(p) || t.kind(p) != "" {
						continue
					}
					if !t.mkdirs(parentOf(p)) {
						continue
					}
					if r.Chance(1, 3) { // an unrelated file is there
						t.fileC(p, "own\n")
					}
					return p
				}
			case x < 9: // next to a member of the group: just before / just after it in the order
				if len(inside) > 0 {
					m := r.Pick(inside)
					p := m + r.Pick([]string{".new", "0", "~", "-"})
					if r.Bool() {
						p = parentOf(m) + "/" + r.Pick([]string{"!", "+", "0", "A"}) + m[strings.LastIndexByte(m, '/')+1:]
					}
					if t.kind(p) == "" && scriptable(p) {
						return p
					}
				}
			case x < 11: // the name is itself a link of the source's inode
				if len(inside) > 0 {
					return r.Pick(inside)
				}
			default: // a fresh further link of the group under the user's name
				p := r.Pick(srcDirs) + "/" + srcPlainName(r) + ".lnk"
				if t.add(Node{Path: B(p), Kind: "file", Group: g, Content: B("shared\n")}) {
					return p
				}
			}
			return "/etc/motd." + string(rune('a'+r.Intn(26)))
		}
		nlines := 1
		if r.Chance(1, 3) {
			nlines = 2 // two entries sharing one source (or two links of it)
		}
		shared := srcOf()
		for li := 0; li < nlines; li++ {
			u := userName()
			s := shared
			if li > 0 && r.Bool() {
				s = srcOf()
			}
			plan.lines = append(plan.lines, "file "+quoteName(r, u)+" src="+s+r.Pick(srcOpts))
			if r.Chance(1, 10) { // a later line supersedes it
				plan.lines = append(plan.lines, r.Pick([]string{"omit ", "tbd "})+quoteName(r, u))
			}
		}
	}
	// controls: singly linked sources, /dev/null, an absent source
	if r.Chance(1, 2) {
		switch r.Intn(5) {
		case 0:
			plan.lines = append(plan.lines, "file /etc/udev/rules.d/70-net.rules src=/dev/null"+r.Pick(srcOpts))
		case 1:
			p := extName()
			plan.ext = append(plan.ext, Node{Path: B(p), Kind: "file", Content: B("single\n")})
			plan.lines = append(plan.lines, "file "+r.Pick(srcDirs)+"/"+srcPlainName(r)+".cp src="+extMark+p+r.Pick(srcOpts))
			if r.Bool() { // two entries from one singly linked source
				plan.lines = append(plan.lines, "file "+r.Pick(srcDirs)+"/"+srcPlainName(r)+".cq src="+extMark+p+r.Pick(srcOpts))
			}
		case 2:
			plan.lines = append(plan.lines, "file /etc/vim/vimrc src=$$stageroot/etc/passwd"+r.Pick(srcOpts))
			if r.Bool() {
				plan.lines = append(plan.lines, "file /etc/vim/vimrc.orig src=$$stageroot/etc/passwd"+r.Pick(srcOpts))
			}
		case 3:
			if r.Chance(1, 3) {
				plan.lines = append(plan.lines, "file /opt/app/gone src="+r.Pick([]string{"$$stageroot/no/such/file", extMark + "/nothing"}))
			}
		case 4: // a group that lives outside only, used twice
			p1, p2 := extName(), extName()
			t.group++
			plan.ext = append(plan.ext, Node{Path: B(p1), Kind: "file", Group: t.group, Content: B("pair\n")},
				Node{Path: B(p2), Kind: "file", Group: t.group, Content: B("pair\n")})
			a, b := r.Pick(srcDirs)+"/"+srcPlainName(r)+".p", r.Pick(srcDirs)+"/"+srcPlainName(r)+".q"
			plan.lines = append(plan.lines, "file "+a+" src="+extMark+p1+r.Pick(srcOpts),
				"file "+b+" src="+extMark+r.Pick([]string{p1, p2})+r.Pick(srcOpts))
		}
	}
	return plan
}

// mergeSrcLines puts the src= lines into the script at random positions, keeping their order.
func mergeSrcLines(r *rng.R, script []B, lines []string) []B {
	out := append([]B{}, script...)
	pos := 0
	for _, l := range lines {
		pos += r.Intn(len(out) - pos + 1)
		out = append(out[:pos:pos], append([]B{B(l)}, out[pos:]...)...)
		pos++
	}
	return out
}

var _ = common.Bs
