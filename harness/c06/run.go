// Package c06: build roots -> the stagemaker binary -> member lists (property C06).
package c06

import (
	"archive/tar"
	"bytes"
	"crypto/sha1"
	"encoding/hex"
	"encoding/json"
	"fmt"
	"io"
	"os"
	"os/exec"
	"path/filepath"
	"sort"
	"strings"
	"syscall"
	"time"

	"lcverif/common"
	q "lcverif/coqfmt"
	"lcverif/rng"
)

type B = common.B

// Node is one entry of the build-root tree as the generator describes it.
type Node struct {
	Path    B      `json:"path"`
	Kind    string `json:"kind"` // dir file link chr blk fifo sock
	Target  B      `json:"target,omitempty"`
	Group   int    `json:"group,omitempty"`   // hard-link group (>0): same inode
	Content B      `json:"content,omitempty"` // file content (VDB files)
}

type Pkg struct {
	Cat  string `json:"cat"`
	PF   string `json:"pf"` // name-version
	PN   string `json:"pn"`
	Want bool   `json:"want"` // named with -atoms
}

type Input struct {
	Tree     []Node `json:"tree"`
	Pkgs     []Pkg  `json:"pkgs"`
	NoVDB    bool   `json:"novdb"`
	EmptyDev bool   `json:"emptydev"`
	NoBdeps  bool   `json:"nobdeps"`
	Script   []B    `json:"script"` // lines of the -addfiles file ("@EXT@" = the directory of the outside files)
	UseFile  bool   `json:"use_addfiles"`
	Ext      []Node `json:"ext,omitempty"` // files outside the build root (r5_src.go); groups shared with Tree
}

func (p Pkg) Dir() string { return "/var/db/pkg/" + p.Cat + "/" + p.PF }

// ---- materialise a tree on disk ----
func materialise(root string, nodes []Node) error { return materialiseInto(root, nodes, map[int]string{}) }

// first: hard-link group -> the path that was created first (shared between the build root and the outside files)
func materialiseInto(root string, nodes []Node, first map[int]string) error {
	sorted := append([]Node{}, nodes...)
	sort.Slice(sorted, func(i, j int) bool { return sorted[i].Path < sorted[j].Path })
	if err := os.MkdirAll(root, 0755); err != nil {
		return err
	}
	for _, n := range sorted {
		p := root + string(n.Path)
		if string(n.Path) == "/" {
			continue
		}
		var err error
		switch n.Kind {
		case "dir":
			err = os.Mkdir(p, 0755)
		case "file":
			if n.Group > 0 {
				if f, ok := first[n.Group]; ok {
					err = os.Link(f, p)
					break
				}
				first[n.Group] = p
			}
			err = os.WriteFile(p, []byte(string(n.Content)), 0644)
		case "link":
			err = os.Symlink(string(n.Target), p)
		case "chr":
			err = syscall.Mknod(p, syscall.S_IFCHR|0600, 1<<8|3)
		case "blk":
			err = syscall.Mknod(p, syscall.S_IFBLK|0600, 8<<8|0)
		case "fifo":
			err = syscall.Mknod(p, syscall.S_IFIFO|0600, 0)
		case "sock":
			err = syscall.Mknod(p, syscall.S_IFSOCK|0600, 0)
		default:
			err = fmt.Errorf("unknown node kind %q", n.Kind)
		}
		if err != nil {
			return fmt.Errorf("materialise %q (%s): %v", n.Path, n.Kind, err)
		}
	}
	return nil
}

// scanned node: what lstat says
type SNode struct {
	Path   string
	Kind   string // dir file link dev fifo sock
	Target string
	Group  uint64 // 0 = link count 1
}

func scan(root string) ([]SNode, error) { return scanInto(root, map[[2]uint64]uint64{}) }

// groups: (dev, inode) -> group number, shared between the build root and the outside files
func scanInto(root string, groups map[[2]uint64]uint64) ([]SNode, error) {
	var out []SNode
	var walk func(rel string) error
	walk = func(rel string) error {
		full := root + rel
		if rel == "" {
			full = root
		}
		var st syscall.Stat_t
		if err := syscall.Lstat(full, &st); err != nil {
			return err
		}
		key := rel
		if key == "" {
			key = "/"
		}
		n := SNode{Path: key}
		switch st.Mode & syscall.S_IFMT {
		case syscall.S_IFDIR:
			n.Kind = "dir"
		case syscall.S_IFREG:
			n.Kind = "file"
			if st.Nlink > 1 {
				id := [2]uint64{uint64(st.Dev), st.Ino}
				g, ok := groups[id]
				if !ok {
					g = uint64(len(groups) + 1)
					groups[id] = g
				}
				n.Group = g
			}
		case syscall.S_IFLNK:
			n.Kind = "link"
			t, err := os.Readlink(full)
			if err != nil {
				return err
			}
			n.Target = t
		case syscall.S_IFCHR, syscall.S_IFBLK:
			n.Kind = "dev"
		case syscall.S_IFIFO:
			n.Kind = "fifo"
		case syscall.S_IFSOCK:
			n.Kind = "sock"
		default:
			return fmt.Errorf("unknown mode of %s", full)
		}
		out = append(out, n)
		if n.Kind == "dir" {
			ents, err := os.ReadDir(full)
			if err != nil {
				return err
			}
			for _, e := range ents {
				if err := walk(rel + "/" + e.Name()); err != nil {
					return err
				}
			}
		}
		return nil
	}
	if err := walk(""); err != nil {
		return nil, err
	}
	sort.Slice(out, func(i, j int) bool { return out[i].Path < out[j].Path })
	return out, nil
}

// ---- running the binary ----
type runRes struct {
	Class  string // ok failed panic other
	Stdout []byte
	Stderr string
}

func runBin(dir string, args ...string) runRes {
	bin := filepath.Join(os.Getenv("LCV_RUN"), "stagemaker")
	cmd := exec.Command(bin, args...)
	cmd.Dir = dir
	cmd.Env = []string{"PATH=/usr/bin:/bin", "HOME=/nonexistent", "LC_ALL=C"}
	var so, se bytes.Buffer
	cmd.Stdout = &so
	cmd.Stderr = &se
	done := make(chan error, 1)
	if err := cmd.Start(); err != nil {
		return runRes{Class: "other", Stderr: err.Error()}
	}
	go func() { done <- cmd.Wait() }()
	var err error
	select {
	case err = <-done:
	case <-time.After(20 * time.Second):
		cmd.Process.Kill()
		<-done
		return runRes{Class: "timeout", Stdout: so.Bytes(), Stderr: se.String()}
	}
	r := runRes{Stdout: so.Bytes(), Stderr: se.String()}
	if err == nil {
		r.Class = "ok"
		return r
	}
	code := -1
	if ee, ok := err.(*exec.ExitError); ok {
		code = ee.ExitCode()
	}
	switch {
	case code == 2 && strings.Contains(r.Stderr, "panic:"):
		r.Class = "panic"
	case code == 1:
		r.Class = "failed"
	default:
		r.Class = fmt.Sprintf("other(%d)", code)
	}
	return r
}

type Member struct {
	Name B      `json:"name"`
	Kind string `json:"kind"`
	Link B      `json:"link,omitempty"`
}

func readTar(path string) ([]Member, error) {
	f, err := os.Open(path)
	if err != nil {
		return nil, err
	}
	defer f.Close()
	tr := tar.NewReader(f)
	var out []Member
	for {
		h, err := tr.Next()
		if err == io.EOF {
			break
		}
		if err != nil {
			return nil, err
		}
		m := Member{Name: B(h.Name)}
		switch h.Typeflag {
		case tar.TypeDir:
			m.Kind = "KDir"
		case tar.TypeReg:
			m.Kind = "KReg"
		case tar.TypeSymlink:
			m.Kind = "KSym"
		case tar.TypeLink:
			m.Kind = "KLink"
			m.Link = B(h.Linkname)
		case tar.TypeChar, tar.TypeBlock:
			m.Kind = "KDevice"
		default:
			m.Kind = "KOther"
		}
		out = append(out, m)
	}
	return out, nil
}

var caseCounter int

// Thorough is set by Generate for the thorough tier: the archive is also extracted with GNU tar.
var Thorough bool

// gnuTarExtract: extract into an empty directory (as root, keeping device nodes) and look for every member.
func gnuTarExtract(base, tarPath string, members []Member) bool {
	dir := base + "/extract"
	if err := os.Mkdir(dir, 0755); err != nil {
		panic(err)
	}
	cmd := exec.Command("tar", "-xpf", tarPath, "-C", dir, "--numeric-owner")
	cmd.Env = []string{"PATH=/usr/bin:/bin", "LC_ALL=C"}
	out, err := cmd.CombinedOutput()
	if err != nil {
		fmt.Fprintf(os.Stderr, "c06: GNU tar failed: %v: %s\n", err, firstLine(string(out)))
		return false
	}
	for _, m := range members {
		var st syscall.Stat_t
		if err := syscall.Lstat(dir+"/"+string(m.Name), &st); err != nil {
			fmt.Fprintf(os.Stderr, "c06: member %q missing after extraction: %v\n", m.Name, err)
			return false
		}
	}
	return true
}

// Run materialises the input, runs the real binary three times and emits the case.
func Run(in Input) *common.Case {
	caseCounter++
	base := fmt.Sprintf("/var/tmp/lcv-c06-%d-%d", os.Getpid(), caseCounter)
	os.RemoveAll(base)
	defer os.RemoveAll(base)
	root := base + "/root"
	desc := map[string]interface{}{"input": in}
	c := &common.Case{Desc: desc}
	first := map[int]string{}
	if err := materialiseInto(root, in.Tree, first); err != nil {
		panic(err)
	}
	groups := map[[2]uint64]uint64{}
	nodes, err := scanInto(root, groups)
	if err != nil {
		panic(err)
	}
	// outside files (src= sources): created next to the build root, looked at with lstat like the tree
	in, extTerm := prepareExt(base, in, first, groups)
	// arguments
	var atoms []string
	for _, p := range in.Pkgs {
		if p.Want {
			atoms = append(atoms, p.Cat+"/"+p.PN)
		}
	}
	args := []string{"-root", root, "-atoms", strings.Join(atoms, " ")}
	if in.NoVDB {
		args = append(args, "-novdb")
	}
	if in.EmptyDev {
		args = append(args, "-emptydev")
	}
	if in.NoBdeps {
		args = append(args, "-nobdeps")
	}
	if in.UseFile {
		var sb strings.Builder
		for _, l := range in.Script {
			sb.WriteString(string(l))
			sb.WriteByte('\n')
		}
		if err := os.WriteFile(base+"/addfiles", []byte(sb.String()), 0644); err != nil {
			panic(err)
		}
		args = append(args, "-addfiles", base+"/addfiles")
	}
	// 1. the selection (an input of this property)
	selRun := runBin(base, append([]string{"-list", "stage"}, args...)...)
	selOK := selRun.Class == "ok"
	selected := map[string]bool{}
	byAtom := map[string]bool{}
	for _, p := range in.Pkgs {
		byAtom[p.Cat+"/"+p.PF] = true
	}
	if selOK {
		for _, l := range strings.Split(strings.TrimRight(string(selRun.Stdout), "\n"), "\n") {
			if l == "" {
				continue
			}
			if !byAtom[l] {
				selOK = false
			}
			selected[l] = true
		}
	}
	// 2. the file listing  3. the archive
	listRun := runBin(base, append([]string{"-list", "stage", "-files"}, args...)...)
	tarPath := base + "/out.tar"
	genRun := runBin(base, append([]string{"-generate", "-o", tarPath}, args...)...)

	obsDesc := map[string]interface{}{"select": selRun.Class, "list": listRun.Class, "generate": genRun.Class,
		"stderr": firstLine(listRun.Stderr)}
	resTerm := func(class string, okTerm func() string) string {
		switch class {
		case "ok":
			return okTerm()
		case "failed":
			return "Failed"
		case "panic":
			return "Panic"
		}
		panic(fmt.Sprintf("unexpected result class %s: %s / %s", class, listRun.Stderr, genRun.Stderr))
	}
	var names []string
	listTerm := resTerm(listRun.Class, func() string {
		s := string(listRun.Stdout)
		s = strings.TrimSuffix(s, "\n")
		if s != "" {
			names = strings.Split(s, "\n")
		}
		return q.App("Ok", q.HxList(names))
	})
	var members []Member
	tarTerm := resTerm(genRun.Class, func() string {
		ms, err := readTar(tarPath)
		if err != nil {
			panic(fmt.Sprintf("reading back the archive: %v", err))
		}
		members = ms
		ts := make([]string, len(ms))
		for i, m := range ms {
			ts[i] = q.App("MkM", q.Hx(string(m.Name)), m.Kind, q.Hx(string(m.Link)))
		}
		return q.App("Ok", q.List(ts))
	})
	extractOK := true
	if Thorough && genRun.Class == "ok" {
		extractOK = gnuTarExtract(base, tarPath, members)
		obsDesc["gnu_tar_extract"] = extractOK
	}
	obsDesc["names"] = common.Bs(names)
	obsDesc["members"] = members
	desc["obs"] = obsDesc
	desc["selected"] = keysOf(selected)

	// input term
	nts := make([]string, len(nodes))
	for i, n := range nodes {
		var nd string
		switch n.Kind {
		case "dir":
			nd = "NDir"
		case "file":
			if n.Group > 0 {
				nd = "(NFile (Some " + q.N(n.Group) + "))"
			} else {
				nd = "(NFile None)"
			}
		case "link":
			nd = q.App("NLink", q.Hx(n.Target))
		case "dev":
			nd = "NDev"
		case "fifo":
			nd = "NFifo"
		case "sock":
			nd = "NSock"
		}
		nts[i] = q.Pair(q.Hx(n.Path), nd)
	}
	content := map[string]string{}
	for _, n := range in.Tree {
		content[string(n.Path)] = string(n.Content)
	}
	pts := make([]string, len(in.Pkgs))
	nsel := 0
	for i, p := range in.Pkgs {
		sel := selected[p.Cat+"/"+p.PF]
		if sel {
			nsel++
		}
		pts[i] = q.App("MkPkg", q.Hx(p.Dir()), q.Bool(sel), q.Hx(content[p.Dir()+"/CONTENTS"]))
	}
	script := []string{}
	if in.UseFile {
		script = common.Ss(in.Script)
	}
	inTerm := q.App("MkIn", q.List(nts), q.List(pts), q.Bool(in.NoVDB), q.Bool(in.EmptyDev), q.HxList(script), extTerm)
	c.Coq = q.App("C06.MkCase", inTerm, q.Bool(in.NoBdeps), q.Bool(selOK),
		q.App("C06.MkObs", listTerm, tarTerm, q.Bool(extractOK)))

	js, _ := json.Marshal(desc["input"])
	h := sha1.Sum(js)
	c.Key = hex.EncodeToString(h[:])
	c.Nontrivial = (nsel > 0 && nsel < len(in.Pkgs)) || (in.UseFile && len(in.Script) > 0)
	cl := []string{"result=" + listRun.Class + "/" + genRun.Class}
	if in.NoVDB {
		cl = append(cl, "novdb")
	}
	if !in.EmptyDev {
		cl = append(cl, "staticdev")
	}
	if in.NoBdeps {
		cl = append(cl, "nobdeps")
	}
	if in.UseFile {
		cl = append(cl, "script")
		for _, l := range in.Script {
			f := strings.Fields(string(l))
			if len(f) > 1 {
				k := f[0]
				if strings.Contains(f[1], "*") {
					k += "-wild"
				}
				if strings.Contains(string(l), " src=") {
					k += "-src"
				}
				cl = append(cl, "line:"+k)
			}
		}
	}
	cl = append(cl, fmt.Sprintf("selected=%d/%d", nsel, len(in.Pkgs)))
	hard, links := 0, 0
	for _, n := range nodes {
		if n.Group > 0 {
			hard++
		}
		if n.Kind == "link" {
			links++
		}
	}
	if hard > 0 {
		cl = append(cl, "hardlinks")
	}
	for _, m := range members {
		if m.Kind == "KLink" {
			cl = append(cl, "hardlink-member")
			break
		}
	}
	cl = append(cl, fmt.Sprintf("tree~%d", len(nodes)/25*25))
	c.Classes = dedup(cl)
	return c
}

func firstLine(s string) string {
	if i := strings.IndexByte(s, '\n'); i >= 0 {
		s = s[:i]
	}
	if len(s) > 300 {
		s = s[:300]
	}
	return s
}
func keysOf(m map[string]bool) []string {
	out := []string{}
	for k := range m {
		out = append(out, k)
	}
	sort.Strings(out)
	return out
}
func dedup(ss []string) []string {
	seen := map[string]bool{}
	out := []string{}
	for _, s := range ss {
		if !seen[s] {
			seen[s] = true
			out = append(out, s)
		}
	}
	return out
}

func RunJSON(raw json.RawMessage) (*common.Case, error) {
	var in Input
	if err := json.Unmarshal(raw, &in); err != nil {
		return nil, err
	}
	return Run(in), nil
}

func init() {
	common.Register("c06", common.Prop{
		Generate: func(r common.Rand, tier string, n int, emit func(*common.Case)) {
			Generate(rng.New(r.U64()), tier, n, emit)
		},
		Replay: RunJSON,
	})
}
