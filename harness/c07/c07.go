// Package c07: generated build roots -> `stagemaker -generate` -> archive/tar read-back
// (property C07: tarball members reproduce the build root faithfully).
package c07

import (
	"archive/tar"
	"bytes"
	"compress/bzip2"
	"compress/gzip"
	"context"
	"crypto/sha256"
	"encoding/json"
	"fmt"
	"io"
	"os"
	"os/exec"
	"path/filepath"
	"reflect"
	"sort"
	"strings"
	"syscall"
	"time"

	"lcverif/common"
	q "lcverif/coqfmt"
	"lcverif/rng"
)

type B = common.B

// ---------------------------------------------------------------- input (replayable)
type Xattr struct {
	Name  B `json:"name"`
	Value B `json:"value"`
}

// the object the generator wants at the source path
type ObjSpec struct {
	Kind     string  `json:"kind"` // reg dir symlink char block fifo socket absent notdir
	Perm     uint32  `json:"perm"`
	Uid      uint32  `json:"uid"`
	Gid      uint32  `json:"gid"`
	Mtime    int64   `json:"mtime"`
	Nsec     int64   `json:"nsec"`
	Size     int     `json:"size"`
	DataSeed uint64  `json:"dataseed"`
	Target   B       `json:"target"`
	Major    uint64  `json:"major"`
	Minor    uint64  `json:"minor"`
	Xattrs   []Xattr `json:"xattrs"`
	LinkTo   int     `json:"linkto"` // index of the member whose inode this one shares, -1 none
	// a second, unstaged name of the same inode next to the object (st_nlink > 1 although no
	// other member shares it)
	ExtraLink bool `json:"extralink"`
}

type Clause struct {
	Who  int  `json:"who"` // 0 none 1 u 2 g 3 o 4 a
	Add  bool `json:"add"`
	Perm int  `json:"perm"` // 0 r 1 w 2 x 3 s 4 t
}
type ModSpec struct {
	Kind    string   `json:"kind"` // "" octal sym
	Digits  string   `json:"digits"`
	Clauses []Clause `json:"clauses"`
}

type MemberSpec struct {
	Name    B       `json:"name"`
	How     string  `json:"how"`   // pkg (CONTENTS of the selected package) | line (add-files) | skel (built-in script) | recovered (a symbolic link nobody owns whose chain of links ends at a member: RecoverMissingLinks)
	Via     B       `json:"via,omitempty"` // recovered: the member the chain ends at (the link itself points at the first hop)
	LType   string  `json:"ltype"` // file dir node symlink tbd
	Mod     ModSpec `json:"mod"`
	HasUid  bool    `json:"hasuid"`
	Uid     uint64  `json:"uidopt"`
	HasGid  bool    `json:"hasgid"`
	Gid     uint64  `json:"gidopt"`
	HasDev  bool    `json:"hasdev"`
	DevChar bool    `json:"devchar"`
	Major   uint64  `json:"majoropt"`
	Minor   uint64  `json:"minoropt"`
	Targ    B       `json:"targ"`
	Src     string  `json:"src"` // "" abs stageroot rel
	// SrcOf k > 0: the source is the path where member k-1's object lives (its name inside
	// the build root, or its own src= location); Src then only chooses how the path is
	// written: $$stageroot/..., absolute, or relative to the working directory
	SrcOf int `json:"srcof"`
	Skip    bool    `json:"skip"`
	Obj     ObjSpec `json:"obj"`
}

type CompSpec struct {
	Method int    `json:"method"` // 1 gzip 2 bzip2 3 xz
	Via    string `json:"via"`    // flag | ext | stdout
}

type Input struct {
	Members   []MemberSpec `json:"members"`
	Comp      []CompSpec   `json:"comp"`
	StaticDev bool         `json:"staticdev"`
	NoVDB     bool         `json:"novdb"`
	Extract   bool         `json:"extract"`
	// further runs of the same command line whose -o path exists beforehand (r5_outfile.go)
	Pre []PreSpec `json:"pre,omitempty"`
}

// ---------------------------------------------------------------- skeleton
var skelFiles = []string{"/etc/csh.env", "/etc/env.d/00basic", "/etc/fstab", "/etc/group", "/etc/gshadow",
	"/etc/ld.so.cache", "/etc/ld.so.conf", "/etc/ld.so.conf.d/a.conf", "/etc/localtime", "/etc/passwd",
	"/etc/portage/make.conf", "/etc/profile.env", "/etc/shadow", "/etc/udev/hwdb.bin", "/etc/xml/catalog",
	"/usr/bin/c89", "/usr/bin/c99", "/usr/lib64/gconv/gconv-modules.cache", "/usr/local/x",
	"/usr/share/binutils-data/x", "/usr/share/gcc-data/x", "/usr/share/info/dir", "/var/cache/x",
	"/var/lib/gentoo/x", "/var/lib/portage/world"}
var skelDirs = []string{"/boot", "/dev", "/home", "/media", "/mnt", "/opt", "/proc", "/root", "/run", "/sys", "/tmp",
	"/usr/src", "/var/db/repos", "/var/empty", "/var/lock", "/var/spool", "/var/tmp", "/var/db/pkg",
	"/etc/portage/make.profile"}

// entries of the built-in scripts (defaults.StageMagic / StandardStageDirs / DevDirSetup) that a
// case may put under test: the options are those of the script line
type skelLine struct {
	LType     string
	Targ      string
	Skip      bool
	Mod       string
	HasGid    bool
	Gid       uint64
	HasDev    bool
	DevChar   bool
	Major     uint64
	Minor     uint64
	StaticDev bool
	Kinds     []string // object kinds that let the run succeed
}

var skelTable = map[string]skelLine{
	"/etc/fstab":     {LType: "file", Kinds: []string{"reg"}},
	"/etc/localtime": {LType: "tbd", Kinds: []string{"reg", "symlink"}},
	"/etc/mtab":      {LType: "symlink", Targ: "/proc/self/mounts", Kinds: []string{"symlink", "absent"}},
	"/boot":          {LType: "dir", Kinds: []string{"dir", "absent"}},
	"/var/empty":     {LType: "dir", Kinds: []string{"dir", "absent"}},
	"/var/run":       {LType: "symlink", Kinds: []string{"symlink"}},
	"/usr/tmp":       {LType: "tbd", Skip: true, Kinds: []string{"dir", "symlink", "absent"}},
	"/dev/null":      {LType: "node", HasDev: true, DevChar: true, Major: 1, Minor: 3, Mod: "0666", StaticDev: true, Kinds: []string{"absent", "char"}},
	"/dev/sda":       {LType: "node", HasDev: true, DevChar: false, Major: 8, Minor: 0, Mod: "0640", HasGid: true, Gid: 6, StaticDev: true, Kinds: []string{"absent", "block"}},
	"/dev/input":     {LType: "dir", Mod: "0755", StaticDev: true, Kinds: []string{"absent", "dir"}},
	"/dev/fd":        {LType: "symlink", Targ: "../proc/self/fd", StaticDev: true, Kinds: []string{"absent", "symlink"}},
}
var skelNames []string

func init() {
	for k := range skelTable {
		skelNames = append(skelNames, k)
	}
	sort.Strings(skelNames)
	common.Register("c07", common.Prop{
		Generate: func(r common.Rand, tier string, n int, emit func(*common.Case)) {
			Generate(rng.New(r.U64()), tier, n, emit)
		},
		Replay: RunJSON,
	})
}

func must(err error) {
	if err != nil {
		panic(fmt.Sprintf("c07 harness: %v", err))
	}
}

func buildSkeleton(root string) {
	for _, d := range skelDirs {
		must(os.MkdirAll(root+d, 0755))
	}
	for _, f := range skelFiles {
		must(os.MkdirAll(filepath.Dir(root+f), 0755))
		must(os.WriteFile(root+f, []byte("x\n"), 0644))
	}
	must(os.Symlink("/run", root+"/var/run"))
	must(os.Symlink("/proc/self/mounts", root+"/etc/mtab"))
	pkg := root + "/var/db/pkg/sys-apps/c07pkg-1.0"
	must(os.MkdirAll(pkg, 0755))
	must(os.WriteFile(pkg+"/SLOT", []byte("0\n"), 0644))
	must(os.WriteFile(root+"/etc/portage/make.profile/packages", []byte("*sys-apps/c07pkg\n"), 0644))
}

// ---------------------------------------------------------------- object creation
func dataBytes(seed uint64, n int) []byte {
	r := rng.New(seed)
	b := make([]byte, n)
	for i := 0; i < n; i += 8 {
		v := r.U64()
		for j := 0; j < 8 && i+j < n; j++ {
			b[i+j] = byte(v >> (8 * j))
		}
	}
	return b
}

func createObject(p string, o ObjSpec, first string) {
	if o.Kind == "absent" {
		os.RemoveAll(p)
		return
	}
	if o.Kind == "notdir" { // lstat fails with ENOTDIR: the parent is a regular file
		os.RemoveAll(filepath.Dir(p))
		must(os.WriteFile(filepath.Dir(p), []byte("f"), 0644))
		return
	}
	os.RemoveAll(p)
	must(os.MkdirAll(filepath.Dir(p), 0755))
	if o.LinkTo >= 0 && first != "" {
		must(os.Link(first, p))
		return
	}
	switch o.Kind {
	case "reg":
		must(os.WriteFile(p, dataBytes(o.DataSeed, o.Size), 0600))
	case "dir":
		must(os.Mkdir(p, 0700))
	case "symlink":
		must(os.Symlink(string(o.Target), p))
	case "char":
		must(syscall.Mknod(p, syscall.S_IFCHR|0600, int(makedev(o.Major, o.Minor))))
	case "block":
		must(syscall.Mknod(p, syscall.S_IFBLK|0600, int(makedev(o.Major, o.Minor))))
	case "fifo":
		must(syscall.Mknod(p, syscall.S_IFIFO|0600, 0))
	case "socket":
		must(syscall.Mknod(p, syscall.S_IFSOCK|0600, 0))
	default:
		panic("c07 harness: unknown kind " + o.Kind)
	}
	must(os.Lchown(p, int(o.Uid), int(o.Gid)))
	for _, x := range o.Xattrs {
		// a refused attribute (name space not allowed on this kind of object, no room) is
		// simply not there: the world is measured afterwards
		_ = lsetxattr(p, string(x.Name), string(x.Value))
	}
	if o.Kind != "symlink" {
		must(syscall.Chmod(p, o.Perm&07777))
	}
}

// ---------------------------------------------------------------- measurement
type objMeas struct {
	State          string // present absent error
	Mode           uint32
	Uid, Gid       uint32
	Mtime          int64
	Size           int64
	Rdev           uint64
	Nlink          uint64
	ID             int
	Link           string
	Xattrs         [][2]string
	Dlen           int64
	Data           string // representation: the bytes when short, else SHA-256
	dev, ino       uint64
}

func dataRepr(b []byte) string {
	if len(b) <= 24 {
		return string(b)
	}
	h := sha256.Sum256(b)
	return string(h[:])
}

func measure(p string, ids map[[2]uint64]int) objMeas {
	var st syscall.Stat_t
	if err := syscall.Lstat(p, &st); err != nil {
		if err == syscall.ENOENT {
			return objMeas{State: "absent"}
		}
		return objMeas{State: "error"}
	}
	m := objMeas{State: "present", Mode: st.Mode, Uid: st.Uid, Gid: st.Gid, Mtime: st.Mtim.Sec, Size: st.Size,
		Rdev: st.Rdev, Nlink: uint64(st.Nlink), dev: st.Dev, ino: st.Ino}
	key := [2]uint64{st.Dev, st.Ino}
	if id, ok := ids[key]; ok {
		m.ID = id
	} else {
		m.ID = len(ids) + 1
		ids[key] = m.ID
	}
	switch st.Mode & syscall.S_IFMT {
	case syscall.S_IFLNK:
		t, err := readlinkFull(p)
		must(err)
		m.Link = t
	case syscall.S_IFREG:
		b, err := os.ReadFile(p)
		must(err)
		m.Dlen = int64(len(b))
		m.Data = dataRepr(b)
	}
	names, err := llistxattr(p)
	if err == nil {
		for _, n := range names {
			v, err := lgetxattr(p, n)
			if err == nil {
				m.Xattrs = append(m.Xattrs, [2]string{n, v})
			}
		}
	}
	return m
}

// ---------------------------------------------------------------- add-files text
func quoteField(f string) string {
	if strings.ContainsAny(f, " \t") {
		return `"` + f + `"`
	}
	return f
}

func modText(m ModSpec) (string, bool) {
	switch m.Kind {
	case "octal":
		return m.Digits, true
	case "sym":
		parts := make([]string, len(m.Clauses))
		for i, c := range m.Clauses {
			s := []string{"", "u", "g", "o", "a"}[c.Who]
			if c.Add {
				s += "+"
			} else {
				s += "-"
			}
			s += []string{"r", "w", "x", "s", "t"}[c.Perm]
			parts[i] = s
		}
		return strings.Join(parts, ","), true
	}
	return "", false
}

func srcLocation(m MemberSpec, idx int, root, tmp string) (option string, real string) {
	base := fmt.Sprintf("s%d", idx)
	switch m.Src {
	case "abs":
		return tmp + "/ext/" + base, tmp + "/ext/" + base
	case "stageroot":
		return "$$stageroot/srcs/" + base, root + "/srcs/" + base
	case "rel":
		return "ext/" + base, tmp + "/ext/" + base
	}
	return "", root + string(m.Name)
}

// how the src= value is written for a member whose source is another member's path
func srcOptionFor(form, real, root, tmp string) string {
	switch form {
	case "stageroot":
		if strings.HasPrefix(real, root+"/") {
			return "$$stageroot" + real[len(root):]
		}
	case "rel":
		if strings.HasPrefix(real, tmp+"/") {
			return real[len(tmp)+1:]
		}
	}
	return real
}

func lineText(m MemberSpec, idx int, root, tmp string, paths []string) string {
	fields := []string{m.LType, string(m.Name)}
	if t, ok := modText(m.Mod); ok {
		fields = append(fields, "mod="+t)
	}
	if m.HasUid {
		fields = append(fields, fmt.Sprintf("uid=%d", m.Uid))
	}
	if m.HasGid {
		fields = append(fields, fmt.Sprintf("gid=%d", m.Gid))
	}
	if m.HasDev {
		t := "b"
		if m.DevChar {
			t = "c"
		}
		fields = append(fields, fmt.Sprintf("dev=%s%d:%d", t, m.Major, m.Minor))
	}
	if len(m.Targ) > 0 {
		fields = append(fields, "targ="+string(m.Targ))
	}
	if m.Src != "" {
		opt, _ := srcLocation(m, idx, root, tmp)
		if m.SrcOf > 0 {
			opt = srcOptionFor(m.Src, paths[idx], root, tmp)
		}
		fields = append(fields, "src="+opt)
	}
	if m.Skip {
		fields = append(fields, "absent=skip")
	}
	for i := range fields {
		fields[i] = quoteField(fields[i])
	}
	return strings.Join(fields, " ")
}

// the options as parseLine leaves them, for a skel member taken from the table
func applySkel(m *MemberSpec) {
	s := skelTable[string(m.Name)]
	m.LType, m.Targ, m.Skip = s.LType, B(s.Targ), s.Skip
	m.Mod = ModSpec{}
	if s.Mod != "" {
		m.Mod = ModSpec{Kind: "octal", Digits: s.Mod}
	}
	m.HasUid, m.Uid = false, 0
	m.HasGid, m.Gid = s.HasGid, s.Gid
	m.HasDev, m.DevChar, m.Major, m.Minor = s.HasDev, s.DevChar, s.Major, s.Minor
	m.Src = ""
}

// ---------------------------------------------------------------- Coq terms
func optN(has bool, v uint64) string {
	if has {
		return q.Some(q.N(v))
	}
	return q.None()
}

func ltypeTerm(m MemberSpec) string {
	switch m.LType {
	case "file":
		return "LFile"
	case "dir":
		return "LDir"
	case "node":
		return "LDev"
	case "symlink":
		return "LSym"
	}
	return "LNone"
}

func xattrsTerm(xs [][2]string) string {
	items := make([]string, len(xs))
	for i, x := range xs {
		items[i] = q.Pair(q.Hx(x[0]), q.Hx(x[1]))
	}
	return q.List(items)
}

func srcTerm(o objMeas) string {
	switch o.State {
	case "absent":
		return "SAbsent"
	case "error":
		return "SLstatErr"
	}
	st := q.App("MkStat", q.N(uint64(o.Mode)), q.N(uint64(o.Uid)), q.N(uint64(o.Gid)), q.Z(o.Mtime),
		q.N(uint64(o.Size)), q.N(o.Rdev), q.N(o.Nlink), q.N(uint64(o.ID)))
	return q.App("SPresent", q.App("MkObj", st, q.Hx(o.Link), xattrsTerm(o.Xattrs), q.N(uint64(o.Dlen)), q.Hx(o.Data)))
}

func modspecTerm(m ModSpec) string {
	switch m.Kind {
	case "octal":
		return q.App("C07.MOctal", q.Hx(m.Digits))
	case "sym":
		items := make([]string, len(m.Clauses))
		for i, c := range m.Clauses {
			items[i] = "(" + q.N(uint64(c.Who)) + ", " + q.Bool(c.Add) + ", " + q.N(uint64(c.Perm)) + ")"
		}
		return q.App("C07.MSym", q.List(items))
	}
	return "C07.MNone"
}

func memberTerm(m MemberSpec, o objMeas, now int64) string {
	modopt := q.None()
	if t, ok := modText(m.Mod); ok {
		modopt = q.Some(q.Hx(t))
	}
	devopt := q.None()
	if m.HasDev {
		devopt = q.Some("(" + q.Bool(m.DevChar) + ", " + q.N(m.Major) + ", " + q.N(m.Minor) + ")")
	}
	opts := q.App("MkOpts", ltypeTerm(m), q.Hx(string(m.Name)), q.Bool(m.Src != ""), q.Hx(string(m.Targ)), modopt,
		optN(m.HasUid, m.Uid), optN(m.HasGid, m.Gid), devopt, q.Bool(m.Skip))
	return q.App("C07.MkM", q.App("MkMember", opts, srcTerm(o), q.Z(now)), modspecTerm(m.Mod))
}

type hdrObs struct {
	Name     string
	Type     byte
	Mode     int64
	Uid, Gid int
	Mtime    int64
	Size     int64
	Link     string
	Major    int64
	Minor    int64
	Xattrs   [][2]string
	Data     string
}

func hdrTerm(h *hdrObs) string {
	if h == nil {
		return q.None()
	}
	return q.Some(q.App("MkHdr", q.Hx(h.Name), q.N(uint64(h.Type)), q.N(uint64(h.Mode)), q.N(uint64(h.Uid)),
		q.N(uint64(h.Gid)), q.Z(h.Mtime), q.N(uint64(h.Size)), q.Hx(h.Link), q.N(uint64(h.Major)), q.N(uint64(h.Minor)),
		xattrsTerm(h.Xattrs), q.Hx(h.Data)))
}

// ---------------------------------------------------------------- reading the archive back
const xattrPrefix = "SCHILY.xattr."

func readTar(data []byte) (map[string]*hdrObs, error) {
	out := map[string]*hdrObs{}
	tr := tar.NewReader(bytes.NewReader(data))
	for {
		h, err := tr.Next()
		if err == io.EOF {
			return out, nil
		}
		if err != nil {
			return out, err
		}
		body, err := io.ReadAll(tr)
		if err != nil {
			return out, err
		}
		o := &hdrObs{Name: h.Name, Type: h.Typeflag, Mode: h.Mode, Uid: h.Uid, Gid: h.Gid, Mtime: h.ModTime.Unix(),
			Size: h.Size, Link: h.Linkname, Major: h.Devmajor, Minor: h.Devminor}
		if len(body) > 0 {
			o.Data = dataRepr(body)
		}
		for k, v := range h.PAXRecords {
			if strings.HasPrefix(k, xattrPrefix) {
				o.Xattrs = append(o.Xattrs, [2]string{k[len(xattrPrefix):], v})
			}
		}
		sort.Slice(o.Xattrs, func(i, j int) bool { return o.Xattrs[i][0] < o.Xattrs[j][0] })
		out[h.Name] = o
	}
}

// ---------------------------------------------------------------- one run
func stagemakerPath() string {
	if d := os.Getenv("LCV_RUN"); d != "" {
		return filepath.Join(d, "stagemaker")
	}
	return "stagemaker"
}

func runStagemaker(tmp string, args []string, stdout io.Writer) (rc int, stderr string) {
	ctx, cancel := context.WithTimeout(context.Background(), 60*time.Second)
	defer cancel()
	cmd := exec.CommandContext(ctx, stagemakerPath(), args...)
	cmd.Dir = tmp
	var eb bytes.Buffer
	cmd.Stderr = &eb
	if stdout != nil {
		cmd.Stdout = stdout
	}
	err := cmd.Run()
	if ctx.Err() != nil {
		return -2, "timeout"
	}
	if err != nil {
		if ee, ok := err.(*exec.ExitError); ok {
			return ee.ExitCode(), eb.String()
		}
		panic(fmt.Sprintf("c07 harness: cannot run stagemaker: %v", err))
	}
	return 0, eb.String()
}

func decompress(method int, data []byte) ([]byte, error) {
	switch method {
	case 1:
		zr, err := gzip.NewReader(bytes.NewReader(data))
		if err != nil {
			return nil, err
		}
		return io.ReadAll(zr)
	case 2:
		return io.ReadAll(bzip2.NewReader(bytes.NewReader(data)))
	case 3:
		cmd := exec.Command("xz", "-dc")
		cmd.Stdin = bytes.NewReader(data)
		return cmd.Output()
	}
	return nil, fmt.Errorf("method %d", method)
}

// sameArchive: two runs of stagemaker on one build root produce the same archive.  Byte equality is
// asked for, except that a member stagemaker SYNTHESISES (a parent directory that does not exist in
// the build root) is stamped with the wall clock of its own run: for those, and only those, the
// time stamp may differ between the two runs; everything else of every header and all data must agree.
func sameArchive(a, b []byte, root string) bool {
	if bytes.Equal(a, b) {
		return true
	}
	ra, rb := tar.NewReader(bytes.NewReader(a)), tar.NewReader(bytes.NewReader(b))
	for {
		ha, ea := ra.Next()
		hb, eb := rb.Next()
		if ea == io.EOF && eb == io.EOF {
			return true
		}
		if ea != nil || eb != nil {
			return false
		}
		if !ha.ModTime.Equal(hb.ModTime) {
			if _, err := os.Lstat(filepath.Join(root, ha.Name)); err == nil {
				return false
			}
			hb.ModTime = ha.ModTime
		}
		ha.AccessTime, hb.AccessTime, ha.ChangeTime, hb.ChangeTime = time.Time{}, time.Time{}, time.Time{}, time.Time{}
		if !reflect.DeepEqual(ha, hb) {
			return false
		}
		da, _ := io.ReadAll(ra)
		db, _ := io.ReadAll(rb)
		if !bytes.Equal(da, db) {
			return false
		}
	}
}

func Run(in Input) (c *common.Case) {
	tmp, err := os.MkdirTemp("/var/tmp", "lcv-c07-")
	must(err)
	if os.Getenv("LCV_KEEP") == "" {
		defer os.RemoveAll(tmp)
	}
	root := tmp + "/root"
	must(os.MkdirAll(tmp+"/ext", 0755))
	buildSkeleton(root)

	// members in name order (the order of the archive)
	ms := append([]MemberSpec{}, in.Members...)
	order := make([]int, len(ms))
	for i := range order {
		order[i] = i
	}
	sort.SliceStable(order, func(a, b int) bool { return string(ms[order[a]].Name) < string(ms[order[b]].Name) })
	for i := range ms {
		if ms[i].How == "skel" {
			applySkel(&ms[i])
		}
		if ms[i].How == "pkg" || ms[i].How == "recovered" {
			ms[i].LType, ms[i].Skip = "tbd", true
		}
	}

	// objects (hard-link followers after their leaders)
	paths := make([]string, len(ms))
	for i, m := range ms {
		_, paths[i] = srcLocation(m, i, root, tmp)
	}
	alias := make([]bool, len(ms)) // the source is another member's object: nothing to create
	for i, m := range ms {
		if j := m.SrcOf - 1; j >= 0 && j < len(ms) && j != i && ms[j].SrcOf == 0 && m.Src != "" {
			paths[i] = paths[j]
			alias[i] = true
		} else {
			ms[i].SrcOf = 0
		}
	}
	for pass := 0; pass < 2; pass++ {
		for i, m := range ms {
			if alias[i] {
				continue
			}
			follower := m.Obj.LinkTo >= 0 && m.Obj.LinkTo < len(ms) && m.Obj.LinkTo != i && m.Obj.Kind == "reg" && !alias[m.Obj.LinkTo]
			if (pass == 1) != follower {
				continue
			}
			first := ""
			o := m.Obj
			if follower {
				first = paths[m.Obj.LinkTo]
			} else {
				o.LinkTo = -1
			}
			createObject(paths[i], o, first)
			if o.ExtraLink && o.Kind == "reg" && !follower {
				// in a directory nothing stages (the built-in scripts glob /usr/local/* etc.)
				dir := tmp + "/ext"
				if strings.HasPrefix(paths[i], root+"/") {
					dir = root + "/.c07links"
				}
				must(os.MkdirAll(dir, 0755))
				extra := fmt.Sprintf("%s/l%d", dir, i)
				os.Remove(extra)
				must(os.Link(paths[i], extra))
			}
		}
	}
	// the hops of recovered links: <name> -> <name>.hop1 -> <name>.hop2 -> the member named by Via
	for i, m := range ms {
		if m.How == "recovered" && len(m.Via) > 0 {
			dir := filepath.Dir(paths[i])
			rel, err := filepath.Rel(filepath.Dir(string(m.Name)), string(m.Via))
			must(err)
			os.Remove(paths[i] + ".hop1")
			os.Remove(paths[i] + ".hop2")
			must(os.Symlink(filepath.Base(paths[i])+".hop2", dir+"/"+filepath.Base(paths[i])+".hop1"))
			must(os.Symlink(rel, dir+"/"+filepath.Base(paths[i])+".hop2"))
		}
	}
	// times last (creating children changes directory times); deepest paths first is not
	// needed because utimensat does not touch the parent
	for i, m := range ms {
		if m.Obj.Kind != "absent" && m.Obj.Kind != "notdir" && !alias[i] {
			_ = lutimes(paths[i], m.Obj.Mtime, m.Obj.Nsec)
		}
	}

	// package CONTENTS and add-files list
	var contents, lines []string
	for i, m := range ms {
		switch m.How {
		case "pkg":
			switch m.Obj.Kind {
			case "dir":
				contents = append(contents, "dir "+string(m.Name))
			case "symlink":
				contents = append(contents, "sym "+string(m.Name)+" -> x 1")
			default:
				contents = append(contents, "obj "+string(m.Name)+" d41d8cd98f00b204e9800998ecf8427e 1")
			}
		case "line":
			lines = append(lines, lineText(m, i, root, tmp, paths))
		}
	}
	pkg := root + "/var/db/pkg/sys-apps/c07pkg-1.0"
	if len(contents) == 0 {
		contents = []string{"dir /usr"}
	}
	must(os.WriteFile(pkg+"/CONTENTS", []byte(strings.Join(contents, "\n")+"\n"), 0644))
	must(os.WriteFile(tmp+"/addfiles", []byte(strings.Join(lines, "\n")+"\n"), 0644))

	// the world, measured
	ids := map[[2]uint64]int{}
	meas := make([]objMeas, len(ms))
	for i := range ms {
		meas[i] = measure(paths[i], ids)
	}

	args := []string{"-generate", "-root", root, "-addfiles", tmp + "/addfiles"}
	if !in.StaticDev {
		args = append(args, "-emptydev")
	}
	if in.NoVDB {
		args = append(args, "-novdb")
	}
	t0 := time.Now().Unix()
	rc, stderr := runStagemaker(tmp, append(append([]string{}, args...), "-o", tmp+"/out.tar"), nil)
	t1 := time.Now().Unix()

	desc := map[string]interface{}{"input": in, "lines": lines, "contents": contents}
	c = &common.Case{Desc: desc}
	var obsTerm string
	hdrs := make([]*hdrObs, len(ms))
	var plain []byte
	switch {
	case rc == -2:
		obsTerm = "RDiverged"
		desc["obs"] = "timeout"
	case rc != 0:
		obsTerm = "RFailed"
		desc["obs"] = map[string]interface{}{"exit": rc, "stderr": stderr}
	default:
		plain, err = os.ReadFile(tmp + "/out.tar")
		must(err)
		found, rerr := readTar(plain)
		items := make([]string, len(ms))
		od := []interface{}{}
		for k, i := range order {
			hdrs[i] = found["."+string(ms[i].Name)]
			items[k] = hdrTerm(hdrs[i])
			od = append(od, hdrs[i])
		}
		obsTerm = q.App("ROutput", q.List(items))
		d := map[string]interface{}{"exit": 0, "members": od, "archive_entries": len(found)}
		if rerr != nil {
			d["read_error"] = rerr.Error()
		}
		desc["obs"] = d
	}

	// compression: the same run through each filter must decompress to the plain archive
	compItems := []string{}
	compDesc := []interface{}{}
	if rc == 0 {
		for _, cs := range in.Comp {
			flagName := []string{"none", "gzip", "bzip2", "xz"}[cs.Method]
			ext := []string{".tar", ".tar.gz", ".tar.bz2", ".tar.xz"}[cs.Method]
			var data []byte
			var crc int
			switch cs.Via {
			case "ext":
				crc, _ = runStagemaker(tmp, append(append([]string{}, args...), "-o", tmp+"/outc"+ext), nil)
				data, _ = os.ReadFile(tmp + "/outc" + ext)
			case "stdout":
				var ob bytes.Buffer
				crc, _ = runStagemaker(tmp, append(append([]string{}, args...), "-compress", flagName), &ob)
				data = ob.Bytes()
			default:
				crc, _ = runStagemaker(tmp, append(append([]string{}, args...), "-compress", flagName, "-o", tmp+"/outc.bin"), nil)
				data, _ = os.ReadFile(tmp + "/outc.bin")
			}
			same := false
			if crc == 0 {
				dec, derr := decompress(cs.Method, data)
				same = derr == nil && sameArchive(dec, plain, root) && (cs.Method == 0 || !bytes.Equal(data, plain))
			}
			compItems = append(compItems, "("+q.N(uint64(cs.Method))+", "+q.Bool(same)+")")
			compDesc = append(compDesc, map[string]interface{}{"method": flagName, "via": cs.Via, "exit": crc, "same": same, "bytes": len(data)})
		}
	}
	desc["comp"] = compDesc

	// the output path is not always fresh: the same run onto a path that holds something already
	outItems := []string{}
	var preDesc []preObs
	if rc == 0 && len(in.Pre) > 0 {
		outItems, preDesc = runPre(tmp, root, args, lines, plain, in.Pre)
		desc["pre"] = preDesc
	}

	// members, in name order
	mterms := make([]string, len(ms))
	for k, i := range order {
		now := t0
		if meas[i].State == "absent" && hdrs[i] != nil {
			now = hdrs[i].Mtime
			if now < t0 {
				now = t0
			}
			if now > t1 {
				now = t1
			}
		}
		mterms[k] = memberTerm(ms[i], meas[i], now)
	}
	// referee: GNU tar extracts the archive as root; every member written must come out as the
	// header read back by archive/tar says
	extItems := []string{}
	if rc == 0 && in.Extract {
		extDesc := []interface{}{}
		res, tarOut := extractAndCompare(tmp, order, ms, hdrs)
		for _, r := range res {
			extItems = append(extItems, q.Bool(r.Same))
			extDesc = append(extDesc, r)
		}
		desc["extract"] = map[string]interface{}{"members": extDesc, "tar_output": tarOut}
	}
	c.Coq = q.App("C07.MkCase", q.List(mterms), q.Z(t0), q.Z(t1), q.List(compItems), q.List(extItems), q.List(outItems), obsTerm)

	// evidence bookkeeping
	classes := map[string]bool{}
	keyParts := []string{}
	for i, m := range ms {
		cl := classify(m, meas[i])
		for _, x := range cl {
			classes[x] = true
		}
		if len(cl) > 0 {
			c.Nontrivial = true
		}
		keyParts = append(keyParts, m.How+":"+m.LType+":"+strings.Join(cl, "+"))
	}
	if rc != 0 {
		classes["run-refused"] = true
	}
	if len(in.Comp) > 0 {
		classes["compressed"] = true
	}
	if len(extItems) > 0 {
		classes["extracted-by-gnu-tar"] = true
	}
	for _, po := range preDesc {
		if po.Skipped != "" {
			continue
		}
		cl := "output-path-existed:" + po.Method
		switch {
		case !po.Existed:
			cl = "output-path-fresh-control"
		case po.PriorLen > po.FreshLen:
			cl += ":longer"
		case po.PriorLen == po.FreshLen:
			cl += ":equal"
		default:
			cl += ":shorter"
		}
		classes[cl] = true
		if po.Kind == "bigger" || po.Kind == "other" {
			classes["output-path-held-earlier-stage"] = true
		}
	}
	sort.Strings(keyParts)
	c.Key = strings.Join(keyParts, "|")
	for k := range classes {
		c.Classes = append(c.Classes, k)
	}
	sort.Strings(c.Classes)
	c.Classes = append(c.Classes, fmt.Sprintf("members=%d", len(ms)))
	return c
}

// classes of a member that make it non-trivial (not a default-mode regular file)
func classify(m MemberSpec, o objMeas) []string {
	var cl []string
	add := func(s string) { cl = append(cl, s) }
	if o.State == "absent" {
		add("absent")
	} else if o.State == "error" {
		add("lstat-error")
	} else {
		switch o.Mode & syscall.S_IFMT {
		case syscall.S_IFDIR:
			add("dir")
		case syscall.S_IFLNK:
			add("symlink")
			if len(o.Link) > 256 {
				add("link>256")
			} else if len(o.Link) > 100 {
				add("link>100")
			}
		case syscall.S_IFCHR:
			add("chardev")
		case syscall.S_IFBLK:
			add("blockdev")
		case syscall.S_IFIFO, syscall.S_IFSOCK:
			add("fifo/socket")
		case syscall.S_IFREG:
			if o.Size == 0 {
				add("empty-file")
			} else if o.Size > 65536 {
				add("large-file")
			}
			if o.Nlink > 1 {
				add("hardlinked")
			}
		}
		if o.Mode&07000 != 0 {
			add("special-bits")
		}
		if o.Uid > 2097151 || o.Gid > 2097151 {
			add("big-id")
		} else if o.Uid != 0 || o.Gid != 0 {
			add("non-root-id")
		}
		if ((o.Rdev>>8)&0xfff)|((o.Rdev>>32)&0xfffff000) > 255 || (o.Rdev&0xff)|((o.Rdev>>12)&0xffffff00) > 255 {
			add("dev>8bit")
		}
		if len(o.Xattrs) > 0 {
			add("xattr")
			tot := 0
			for _, x := range o.Xattrs {
				tot += len(x[0]) + 1
				if len(x[1]) > 1024 {
					add("xattr-value>1024")
				}
			}
			if tot > 256 {
				add("xattr-names>256")
			}
		}
		if o.Mtime < 0 || o.Mtime >= 1<<33 {
			add("odd-mtime")
		}
	}
	if m.Mod.Kind != "" {
		add("mod=" + m.Mod.Kind)
	}
	if m.HasUid || m.HasGid {
		add("uid/gid=")
	}
	if m.HasDev {
		add("dev=")
	}
	if len(m.Targ) > 0 {
		add("targ=")
	}
	if m.Src != "" {
		add("src=" + m.Src)
		if m.SrcOf > 0 {
			add("src-of-member")
			if o.Nlink > 1 {
				add("src-multiply-linked")
			}
		}
	}
	if len(m.Name) > 100 {
		add("name>100")
	}
	// deduplicate
	seen := map[string]bool{}
	out := cl[:0]
	for _, x := range cl {
		if !seen[x] {
			seen[x] = true
			out = append(out, x)
		}
	}
	return out
}

func RunJSON(raw json.RawMessage) (*common.Case, error) {
	var in Input
	if err := json.Unmarshal(raw, &in); err != nil {
		return nil, err
	}
	return Run(in), nil
}

// ---------------------------------------------------------------- GNU tar referee
type extRes struct {
	Name string `json:"name"`
	Same bool   `json:"same"`
	Why  string `json:"why,omitempty"`
}

func extractAndCompare(tmp string, order []int, ms []MemberSpec, hdrs []*hdrObs) ([]extRes, string) {
	xdir := tmp + "/x"
	must(os.MkdirAll(xdir, 0755))
	cmd := exec.Command("tar", "-xpf", tmp+"/out.tar", "--xattrs", "--xattrs-include=*", "--numeric-owner",
		"--same-owner", "-C", xdir)
	outb, _ := cmd.CombinedOutput()
	tarOut := string(outb)
	if len(tarOut) > 600 {
		tarOut = tarOut[:600]
	}
	byName := map[string]*hdrObs{}
	for _, h := range hdrs {
		if h != nil {
			byName[h.Name] = h
		}
	}
	ids := map[[2]uint64]int{}
	var res []extRes
	for _, i := range order {
		h := hdrs[i]
		if h == nil {
			continue
		}
		r := extRes{Name: string(ms[i].Name), Same: true}
		fail := func(f string, a ...interface{}) {
			if r.Same {
				r.Same = false
				r.Why = fmt.Sprintf(f, a...)
			}
		}
		if (h.Type == tar.TypeChar || h.Type == tar.TypeBlock) && (h.Major > 4095 || h.Minor > 1048575) {
			// the header is fine but Linux cannot create such a node: nothing to compare
			r.Why = "device numbers beyond the kernel's dev_t: not extractable on Linux"
			res = append(res, r)
			continue
		}
		o := measure(xdir+"/"+strings.TrimPrefix(h.Name, "./"), ids)
		if o.State != "present" {
			fail("not extracted (%s)", o.State)
			res = append(res, r)
			continue
		}
		ft := o.Mode & syscall.S_IFMT
		want := map[byte]uint32{tar.TypeReg: syscall.S_IFREG, tar.TypeLink: syscall.S_IFREG, tar.TypeDir: syscall.S_IFDIR,
			tar.TypeSymlink: syscall.S_IFLNK, tar.TypeChar: syscall.S_IFCHR, tar.TypeBlock: syscall.S_IFBLK}[h.Type]
		if ft != want {
			fail("type %o, header type %c", ft, h.Type)
		}
		// a hard link is one more name of the member it points to: mode, owner, time and
		// attributes are those of that member's header
		mh := h
		if h.Type == tar.TypeLink {
			if t := byName[h.Link]; t != nil {
				mh = t
			}
		}
		if h.Type != tar.TypeSymlink && int64(o.Mode&07777) != mh.Mode&07777 {
			fail("mode %o, header %o", o.Mode&07777, mh.Mode&07777)
		}
		if int(o.Uid) != mh.Uid || int(o.Gid) != mh.Gid {
			fail("owner %d:%d, header %d:%d", o.Uid, o.Gid, mh.Uid, mh.Gid)
		}
		if o.Mtime != mh.Mtime {
			fail("mtime %d, header %d", o.Mtime, mh.Mtime)
		}
		switch h.Type {
		case tar.TypeReg:
			if o.Size != h.Size || o.Data != h.Data {
				fail("content differs (size %d, header %d)", o.Size, h.Size)
			}
		case tar.TypeLink:
			t := byName[h.Link]
			if t == nil || o.Size != t.Size || o.Data != t.Data || o.Nlink < 2 {
				fail("hard link does not share the content of %s", h.Link)
			}
		case tar.TypeSymlink:
			if o.Link != h.Link {
				fail("link target of %d bytes, header %d bytes", len(o.Link), len(h.Link))
			}
		case tar.TypeChar, tar.TypeBlock:
			ma := ((o.Rdev >> 8) & 0xfff) | ((o.Rdev >> 32) & 0xfffff000)
			mi := (o.Rdev & 0xff) | ((o.Rdev >> 12) & 0xffffff00)
			if int64(ma) != h.Major || int64(mi) != h.Minor {
				fail("device %d:%d, header %d:%d", ma, mi, h.Major, h.Minor)
			}
		}
		if len(o.Xattrs) != len(mh.Xattrs) {
			fail("%d xattrs, header %d", len(o.Xattrs), len(mh.Xattrs))
		} else {
			for k := range o.Xattrs {
				if o.Xattrs[k] != mh.Xattrs[k] {
					fail("xattr %q differs", o.Xattrs[k][0])
				}
			}
		}
		res = append(res, r)
	}
	return res, tarOut
}
