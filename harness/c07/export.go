package c07

// BuildSkeleton creates the stage skeleton every stagemaker run needs (DESIGN Appendix C)
// plus one installed package sys-apps/c07pkg-1.0; exported for other harness packages.
func BuildSkeleton(root string) { buildSkeleton(root) }

// StagemakerPath is the binary built from the working tree by the driver.
func StagemakerPath() string { return stagemakerPath() }
