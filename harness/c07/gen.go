package c07

import (
	"fmt"
	"path/filepath"
	"strings"

	"lcverif/common"
	"lcverif/rng"
)

var permPool = []uint32{0644, 0755, 0600, 0, 04755, 02755, 01777, 06755, 07777, 0444, 0640, 0700, 0111, 04000, 01000, 02070}
var idPool = []uint32{0, 0, 0, 1, 6, 1000, 65534, 2097151, 2097152, 1<<31 - 1, 1 << 31, 4294967294, 4294967295}
var mtimePool = []int64{1700000000, 1700000000, 0, 1, -1, -1893456000, 1<<31 - 1, 1 << 31, 1<<33 - 1, 1 << 33, 15032385535, 946684800, -2147483648}
var sizePool = []int{0, 0, 1, 5, 24, 25, 511, 512, 513, 4096, 8191, 70000, 300000}
var linkLenPool = []int{1, 7, 20, 99, 100, 101, 155, 255, 256, 257, 300, 511, 512, 513, 1023, 1024, 1025, 2500, 4000, 4095}
var majorPool = []uint64{0, 1, 4, 8, 255, 256, 300, 511, 4095}
var minorPool = []uint64{0, 1, 3, 64, 255, 256, 300, 4095, 4096, 65535, 65536, 70000, 1048575}
var baseDirs = []string{"/opt/t", "/mnt/x", "/usr/local/lib", "/home/u", "/etc/c07", "/opt/a b", "/var/lib/c07/deep/er"}

func pickU32(r *rng.R, pool []uint32) uint32 { return pool[r.Intn(len(pool))] }

func genTarget(r *rng.R, n int, plain bool) string {
	b := make([]byte, n)
	for i := range b {
		switch {
		case !plain && r.Chance(1, 40):
			c := byte(1 + r.Intn(255))
			b[i] = c
		case r.Chance(1, 9) && i > 0 && i < n-1 && b[i-1] != '/':
			b[i] = '/'
		case r.Chance(1, 30):
			b[i] = '.'
		default:
			b[i] = byte('a' + r.Intn(26))
		}
	}
	if plain {
		for i := range b {
			if b[i] == '*' || b[i] == '\\' || b[i] == '"' || b[i] == '\'' || b[i] == ' ' || b[i] == '\t' {
				b[i] = '_'
			}
		}
	}
	if r.Chance(1, 3) && n > 1 {
		b[0] = '/'
	}
	// components longer than 255 bytes are fine in a link target (it need not resolve)
	return string(b)
}

func genXattrs(r *rng.R, kind string) []Xattr {
	if !r.Chance(1, 3) {
		return nil
	}
	spaces := []string{"trusted."}
	if kind == "reg" || kind == "dir" {
		spaces = []string{"user.", "user.", "trusted.", "security."}
	}
	var xs []Xattr
	val := func(n int) string {
		b := make([]byte, n)
		for i := range b {
			b[i] = byte(r.Intn(256))
		}
		return string(b)
	}
	switch r.Intn(6) {
	case 0, 1: // a few small ones
		for i := 1 + r.Intn(3); i > 0; i-- {
			xs = append(xs, Xattr{B(r.Pick(spaces) + fmt.Sprintf("k%d", r.Intn(50))), B(val(r.Heavy(40)))})
		}
	case 2: // name list longer than 256 bytes
		for i := 6 + r.Intn(6); i > 0; i-- {
			xs = append(xs, Xattr{B(r.Pick(spaces) + strings.Repeat("n", 20+r.Intn(30)) + fmt.Sprint(i)), B(val(r.Intn(6)))})
		}
	case 3: // a value longer than 1024 bytes
		xs = append(xs, Xattr{B(r.Pick(spaces) + "big"), B(val(1025 + r.Intn(1800)))})
		if r.Bool() {
			xs = append(xs, Xattr{B(r.Pick(spaces) + "after"), B("v")})
		}
	case 4: // boundaries
		xs = append(xs, Xattr{B(r.Pick(spaces) + "edge"), B(val([]int{0, 1, 1023, 1024, 1025}[r.Intn(5)]))})
	case 5: // name list around 256 bytes: names of 31 bytes + NUL = 32 each
		n := 7 + r.Intn(3)
		for i := 0; i < n; i++ {
			sp := r.Pick(spaces)
			xs = append(xs, Xattr{B(sp + strings.Repeat("x", 31-len(sp)-1) + fmt.Sprint(i)), B("")})
		}
	}
	return xs
}

func genObj(r *rng.R, kind string) ObjSpec {
	o := ObjSpec{Kind: kind, LinkTo: -1}
	o.Perm = pickU32(r, permPool)
	if r.Chance(1, 5) {
		o.Perm = uint32(r.Intn(4096))
	}
	if r.Chance(1, 2) {
		o.Uid, o.Gid = pickU32(r, idPool), pickU32(r, idPool)
	}
	if r.Chance(1, 8) {
		o.Uid = uint32(r.U64())
	}
	o.Mtime = mtimePool[r.Intn(len(mtimePool))]
	if r.Chance(1, 3) {
		o.Mtime = 1600000000 + int64(r.Intn(200000000))
	}
	if r.Chance(1, 2) {
		o.Nsec = int64(r.Intn(1000000000))
	}
	switch kind {
	case "reg":
		o.Size = sizePool[r.Intn(len(sizePool))]
		if r.Chance(1, 4) {
			o.Size = r.Heavy(20000)
		}
		o.DataSeed = r.U64()
	case "symlink":
		n := linkLenPool[r.Intn(len(linkLenPool))]
		if r.Chance(1, 3) {
			n = 1 + r.Heavy(60)
		}
		o.Target = B(genTarget(r, n, false))
	case "char", "block":
		o.Major = majorPool[r.Intn(len(majorPool))]
		o.Minor = minorPool[r.Intn(len(minorPool))]
		if r.Chance(1, 4) {
			o.Major, o.Minor = uint64(r.Intn(4096)), uint64(r.Intn(1<<20))
		}
	}
	if kind != "absent" && kind != "notdir" {
		o.Xattrs = genXattrs(r, kind)
	}
	return o
}

func genMod(r *rng.R) ModSpec {
	if r.Bool() {
		d := []string{"644", "0755", "0", "000", "4755", "07777", "1777", "600", "0640", "2750", "00000644"}[r.Intn(11)]
		if r.Chance(1, 3) {
			d = fmt.Sprintf("%o", r.Intn(4096))
		}
		return ModSpec{Kind: "octal", Digits: d}
	}
	m := ModSpec{Kind: "sym"}
	for i := 1 + r.Heavy(4); i > 0; i-- {
		c := Clause{Who: r.Intn(5), Add: r.Bool(), Perm: r.Intn(5)}
		if c.Who == 3 && c.Perm == 4 { // o+t / o-t: not implemented as chmod does it (C17)
			c.Who = 0
		}
		m.Clauses = append(m.Clauses, c)
	}
	return m
}

func genName(r *rng.R, idx int) string {
	base := baseDirs[r.Intn(len(baseDirs))]
	var leaf string
	switch r.Intn(12) {
	case 0:
		leaf = fmt.Sprintf("with space %d", idx)
	case 1:
		leaf = fmt.Sprintf("long-%s-%d", strings.Repeat("n", 90+r.Intn(150)), idx)
	case 2:
		leaf = fmt.Sprintf("ü-é中-%d", idx)
	case 3:
		leaf = fmt.Sprintf("hi\xff\xfe-%d", idx)
	default:
		leaf = fmt.Sprintf("%s%d", r.Pick([]string{"f", "obj", "lib.so.", "a.conf.", "Z", "0"}), idx)
	}
	return base + "/" + leaf
}

func genMember(r *rng.R, idx int, staticDev bool) MemberSpec {
	m := MemberSpec{}
	kinds := []string{"reg", "reg", "reg", "reg", "reg", "reg", "dir", "dir", "dir", "symlink", "symlink", "symlink", "symlink",
		"char", "char", "block", "block", "absent", "absent"}
	kind := kinds[r.Intn(len(kinds))]
	m.Name = B(genName(r, idx))
	switch x := r.Intn(20); {
	case x < 8:
		m.How = "pkg"
	case x < 18:
		m.How = "line"
	default:
		m.How = "skel"
	}
	if m.How == "skel" {
		for tries := 0; ; tries++ {
			name := skelNames[r.Intn(len(skelNames))]
			s := skelTable[name]
			if s.StaticDev && !staticDev {
				if tries > 20 {
					m.How = "line"
					break
				}
				continue
			}
			m.Name = B(name)
			kind = s.Kinds[r.Intn(len(s.Kinds))]
			m.Obj = genObj(r, kind)
			if kind == "symlink" && name == "/var/run" {
				m.Obj.Target = B(genTarget(r, 1+r.Heavy(300), false))
			}
			return m
		}
	}
	m.Obj = genObj(r, kind)
	if m.How == "pkg" {
		if kind == "absent" && r.Chance(1, 2) {
			m.Obj = genObj(r, "reg")
		}
		return m
	}
	// an add-files line
	switch kind {
	case "reg":
		m.LType = r.Pick([]string{"file", "file", "file", "tbd"})
	case "dir":
		m.LType = r.Pick([]string{"dir", "dir", "tbd"})
	case "symlink":
		m.LType = r.Pick([]string{"symlink", "symlink", "tbd"})
		if m.LType == "symlink" && r.Chance(2, 5) {
			m.Targ = B(genTarget(r, 1+r.Heavy(400), true))
		}
	case "char", "block":
		m.LType = r.Pick([]string{"node", "node", "node", "tbd"})
		if m.LType == "node" && r.Chance(2, 5) {
			m.HasDev, m.DevChar = true, r.Bool()
			m.Major, m.Minor = majorPool[r.Intn(len(majorPool))], minorPool[r.Intn(len(minorPool))]
		}
	case "absent":
		switch r.Intn(10) {
		case 0, 1, 2, 3:
			m.LType = "dir"
		case 4, 5, 6:
			m.LType = "symlink"
			m.Targ = B(genTarget(r, 1+r.Heavy(300), true))
		case 7, 8:
			m.LType = "node"
			m.HasDev, m.DevChar = true, r.Bool()
			m.Major, m.Minor = majorPool[r.Intn(len(majorPool))], minorPool[r.Intn(len(minorPool))]
			if r.Chance(1, 6) {
				m.Minor = []uint64{1<<20 - 1, 1 << 20, 2097151}[r.Intn(3)]
			}
		default:
			m.LType = r.Pick([]string{"file", "dir", "node", "symlink", "tbd"})
			m.Skip = true
		}
	}
	if m.LType == "file" || m.LType == "dir" || m.LType == "node" {
		if r.Chance(1, 3) {
			m.Mod = genMod(r)
		}
		if r.Chance(1, 5) {
			m.HasUid, m.Uid = true, uint64(pickU32(r, idPool))
			if m.Uid >= 1<<31 {
				m.Uid = uint64(r.Intn(70000))
			}
		}
		if r.Chance(1, 5) {
			m.HasGid, m.Gid = true, uint64(pickU32(r, idPool))
			if m.Gid >= 1<<31 {
				m.Gid = 1<<31 - 1
			}
		}
		if kind != "absent" && !m.HasDev && r.Chance(1, 6) {
			m.Src = r.Pick([]string{"abs", "stageroot", "rel"})
		}
	}
	if r.Chance(1, 12) {
		m.Skip = true
	}
	return m
}

// rare entries that make stagemaker refuse the run (each legitimately)
func genRefused(r *rng.R, idx int) MemberSpec {
	m := MemberSpec{Name: B(fmt.Sprintf("/opt/r/bad%d", idx)), How: "line"}
	switch r.Intn(8) {
	case 0: // regular file that is not there
		m.LType, m.Obj = "file", genObj(r, "absent")
	case 1: // device without numbers and without a node
		m.LType, m.Obj = "node", genObj(r, "absent")
	case 2: // link without target
		m.LType, m.Obj = "symlink", genObj(r, "absent")
	case 3: // sockets and FIFOs cannot be archived
		m.LType, m.Obj = "tbd", genObj(r, r.Pick([]string{"fifo", "socket"}))
		if r.Bool() {
			m.How = "pkg"
		}
	case 4: // user id beyond the accepted range
		m.LType, m.Obj = "file", genObj(r, "reg")
		m.HasUid, m.Uid = true, []uint64{1 << 31, 3000000000, 1 << 32}[r.Intn(3)]
	case 5: // device number beyond 32 bits
		m.LType, m.Obj = "node", genObj(r, "absent")
		m.HasDev, m.DevChar, m.Major, m.Minor = true, true, 4, 1<<32+uint64(r.Intn(5))
	case 6: // undetermined type, nothing there
		m.LType, m.Obj = "tbd", genObj(r, "absent")
	case 7: // lstat fails with ENOTDIR
		m.Name = B(fmt.Sprintf("/opt/nd%d/x", idx))
		m.LType, m.Obj = r.Pick([]string{"dir", "file", "tbd"}), genObj(r, "notdir")
	}
	return m
}

// genSrcGroup appends a regular file (staged under its own name, or only reachable through
// src=) and one to three add-files entries whose src= resolves to that very path inside the
// build root -- written as $$stageroot/..., absolute or relative.  The inode is singly or
// multiply linked (a second unstaged name, or a staged hard link); every entry is an
// independent copy and may carry its own mod=/uid=/gid=.  Names sort before and after the
// source's name.
// recoverable: RecoverMissingLinks looks into the directory of this name (defaults.DoNotTraverse
// names the trees and directory names it stays out of) and the hop names still fit NAME_MAX
func recoverable(name string) bool {
	for _, p := range []string{"/boot", "/dev", "/home", "/media", "/mnt", "/proc", "/run", "/usr/portage", "/sys", "/var/db"} {
		if name == p || strings.HasPrefix(name, p+"/") {
			return false
		}
	}
	for _, c := range strings.Split(name, "/") {
		if c == "cache" || c == "tmp" {
			return false
		}
	}
	return len(filepath.Base(name)) < 200
}

func genSrcGroup(r *rng.R, in *Input, seen map[string]bool) {
	dirs := []string{"/bin", "/etc", "/opt/t", "/usr/local/lib", "/home/u", "/sbin"}
	prefixes := []string{"0a", "A", "plainsu", "su", "su.copy", "zz", "~z"}
	name := func() B {
		for {
			n := fmt.Sprintf("%s/%s%d", dirs[r.Intn(len(dirs))], prefixes[r.Intn(len(prefixes))], len(in.Members))
			if r.Chance(1, 6) {
				n = fmt.Sprintf("%s/%s", dirs[r.Intn(len(dirs))], prefixes[r.Intn(len(prefixes))])
			}
			if !seen[n] {
				seen[n] = true
				return B(n)
			}
		}
	}
	base := len(in.Members)
	b := MemberSpec{Name: name(), How: "line", LType: "file"}
	b.Obj = genObj(r, "reg")
	b.Obj.Perm = []uint32{04755, 0644, 0600, 02755, 06711, 0755, 04711}[r.Intn(7)]
	b.Obj.ExtraLink = r.Chance(2, 3)
	switch r.Intn(5) {
	case 0:
		b.How = "pkg"
	case 1:
		b.LType = "tbd"
	case 2: // the source has no entry of its own: it is only the target of src= options
		b.Src = "stageroot"
	}
	if b.Src == "" && b.How == "line" && b.LType == "file" && r.Chance(1, 4) {
		b.Mod = genMod(r)
	}
	in.Members = append(in.Members, b)
	for k := 1 + r.Intn(3); k > 0; k-- {
		a := MemberSpec{Name: name(), How: "line", LType: "file", SrcOf: base + 1}
		a.Src = []string{"stageroot", "stageroot", "abs", "rel"}[r.Intn(4)]
		a.Obj = genObj(r, "reg")
		if r.Chance(1, 2) {
			a.Mod = genMod(r)
		}
		if r.Chance(1, 2) {
			a.HasUid, a.Uid = true, uint64([]uint32{0, 7, 1000, 65534, 2097152}[r.Intn(5)])
		}
		if r.Chance(1, 3) {
			a.HasGid, a.Gid = true, uint64([]uint32{0, 7, 100, 65534}[r.Intn(4)])
		}
		in.Members = append(in.Members, a)
	}
	if b.Src == "" && r.Chance(1, 4) { // a staged hard link of the source as well
		f := MemberSpec{Name: name(), How: []string{"pkg", "line"}[r.Intn(2)], LType: "file"}
		f.Obj = genObj(r, "reg")
		f.Obj.LinkTo = base
		in.Members = append(in.Members, f)
	}
}

func genInput(r *rng.R, i int, tier string) Input {
	in := Input{}
	in.StaticDev = r.Chance(1, 4)
	in.NoVDB = r.Chance(1, 4)
	n := 3 + r.Heavy(12)
	seen := map[string]bool{}
	for k := 0; k < n; k++ {
		m := genMember(r, k, in.StaticDev)
		if seen[string(m.Name)] {
			continue
		}
		seen[string(m.Name)] = true
		in.Members = append(in.Members, m)
	}
	// hard-link groups among members whose source is their own name
	if r.Chance(1, 4) {
		var regs []int
		for k, m := range in.Members {
			if m.Obj.Kind == "reg" && m.Src == "" && m.How != "skel" {
				regs = append(regs, k)
			}
		}
		if len(regs) >= 2 {
			lead := regs[r.Intn(len(regs))]
			for _, k := range regs {
				if k != lead && r.Chance(2, 3) {
					in.Members[k].Obj.LinkTo = lead
				}
			}
		}
	}
	// a symbolic link nobody owns that reaches a staged file through two more links (eselect style)
	if r.Chance(1, 3) {
		for _, t := range in.Members {
			if t.How == "pkg" && t.Obj.Kind == "reg" && t.Src == "" && !seen[string(t.Name)+".lnk"] &&
				!strings.ContainsAny(string(t.Name), " \t\n*\\\"'") && recoverable(string(t.Name)) {
				n := string(t.Name) + ".lnk"
				seen[n] = true
				o := genObj(r, "symlink")
				o.Target = B(filepath.Base(n) + ".hop1")
				in.Members = append(in.Members, MemberSpec{Name: B(n), How: "recovered", Via: t.Name, Obj: o})
				break
			}
		}
	}
	// several entries copied (src=) from one inode that lives inside the build root
	if i%5 == 1 || r.Chance(1, 5) {
		genSrcGroup(r, &in, seen)
	}
	if r.Chance(1, 12) {
		in.Members = append(in.Members, genRefused(r, len(in.Members)))
	}
	// compression: only when no entry is synthesised (their time stamp is the clock)
	if i%6 == 5 {
		for k := range in.Members {
			m := &in.Members[k]
			if m.Obj.Kind != "absent" {
				continue
			}
			if m.How == "line" {
				m.Skip = true
			} else if m.How == "skel" {
				if kinds := skelTable[string(m.Name)].Kinds; kinds[0] != "absent" {
					m.Obj = genObj(r, kinds[0])
				}
			}
		}
		in.StaticDev = false
		for k := range in.Members {
			if in.Members[k].How == "skel" && skelTable[string(in.Members[k].Name)].StaticDev {
				in.Members[k].How = "pkg"
				in.Members[k].Name = B(fmt.Sprintf("/opt/t/moved%d", k))
			}
		}
		vias := []string{"flag", "ext", "stdout"}
		for meth := 1; meth <= 3; meth++ {
			in.Comp = append(in.Comp, CompSpec{Method: meth, Via: vias[r.Intn(3)]})
		}
	}
	if tier == "thorough" || i%4 == 2 {
		in.Extract = true
	}
	// the -o path holds something already (drawn last: the draws above are as they were)
	if i%3 == 0 || r.Chance(1, 6) {
		in.Pre = genPre(r)
	}
	return in
}

func Generate(r *rng.R, tier string, n int, emit func(*common.Case)) {
	for i := 0; i < n; i++ {
		cr := r.Split()
		sub := cr.U64()
		cr = rng.New(sub)
		in := genInput(cr, i, tier)
		c := Run(in)
		c.Sub = sub
		emit(c)
	}
}
