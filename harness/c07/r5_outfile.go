package c07

// Round 5: the -o path is not always fresh.
//
// A case may carry "pre" runs: the same command line on the same build root, written to a path
// that exists already -- random bytes, zeros, the stage of an earlier real run on a bigger
// tree or through another compressor, an empty file; shorter than, as long as, a little or much
// longer than the output to come.  Observed is what a reader of the output file sees IN FULL:
// its length, whether the whole file is one archive (nothing but zero padding after the tar
// end-of-archive marker / the decompressor consumes the last byte without complaint) and whether
// that archive is the one a fresh path gets.  Coq side: C07.outobs, C07.out_ok, Model/OutFile.v.

import (
	"archive/tar"
	"bytes"
	"fmt"
	"io"
	"os"
	"os/exec"
	"time"

	q "lcverif/coqfmt"
	"lcverif/rng"
)

type PreSpec struct {
	Method int    `json:"method"` // 0 none 1 gzip 2 bzip2 3 xz
	Via    string `json:"via"`    // flag (-compress X -o file.bin) | ext (method from the file name)
	// what the path holds before the run:
	//   absent   nothing (control)
	//   random   random bytes          zeros    zero bytes
	//   ones     0xff bytes            text     printable text
	//   bigger   the output of a real run of the same method on this build root plus one more big file
	//   other    the output of a real run on this build root through compressor PMethod
	Kind     string `json:"kind"`
	Permille int    `json:"permille"` // random..text: length = fresh length * permille / 1000 + extra
	Extra    int    `json:"extra"`
	PMethod  int    `json:"pmethod"`  // other
	BigSize  int    `json:"bigsize"`  // bigger: size of the additional file
	Seed     uint64 `json:"seed"`
}

type preObs struct {
	Method   string `json:"method"`
	Via      string `json:"via"`
	Kind     string `json:"kind"`
	Existed  bool   `json:"existed"`
	PriorLen int    `json:"prior_len"`
	FreshLen int    `json:"fresh_len"`
	Len      int    `json:"len"`
	Whole    bool   `json:"whole_file_is_one_archive"`
	Same     bool   `json:"same_archive_as_fresh_path"`
	// for the reader of a replay: bytes of the file the archive does not account for
	Rest    int    `json:"unaccounted_bytes"`
	Note    string `json:"note,omitempty"`
	Exit    int    `json:"exit"`
	Skipped string `json:"skipped,omitempty"`
	// > 1: reference run and run under test were repeated after a clock tick (compressed length)
	Attempts int `json:"attempts,omitempty"`
}

var methodFlag = []string{"none", "gzip", "bzip2", "xz"}
var methodExt = []string{".tar", ".tar.gz", ".tar.bz2", ".tar.xz"}

func genPre(r *rng.R) []PreSpec {
	var out []PreSpec
	for k := 1 + r.Intn(2); k > 0; k-- {
		p := PreSpec{Seed: r.U64()}
		if r.Chance(1, 2) {
			p.Method = 1 + r.Intn(3)
		}
		p.Via = r.Pick([]string{"flag", "flag", "ext"})
		switch x := r.Intn(20); {
		case x < 1:
			p.Kind = "absent"
		case x < 8:
			p.Kind = "random"
		case x < 10:
			p.Kind = r.Pick([]string{"zeros", "ones", "text"})
		case x < 16:
			p.Kind = "bigger"
			p.BigSize = []int{600, 5000, 70000, 300000}[r.Intn(4)] + r.Intn(4000)
		default:
			p.Kind = "other"
			p.PMethod = (p.Method + 1 + r.Intn(3)) % 4
		}
		switch x := r.Intn(12); {
		case x < 1: // empty file
			p.Permille, p.Extra = 0, 0
		case x < 3: // shorter
			p.Permille = r.Intn(1000)
		case x < 4: // exactly as long
			p.Permille = 1000
		case x < 7: // a little longer: within the last block, a few blocks
			p.Permille, p.Extra = 1000, []int{1, 2, 511, 512, 513, 1024, 1536, 10240}[r.Intn(8)]
			if r.Chance(1, 3) {
				p.Extra = 1 + r.Intn(3000)
			}
		default: // much longer
			p.Permille, p.Extra = 1500+r.Intn(20000), r.Intn(5000)
		}
		out = append(out, p)
	}
	return out
}

func fillBytes(kind string, seed uint64, n int) []byte {
	switch kind {
	case "zeros":
		return make([]byte, n)
	case "ones":
		return bytes.Repeat([]byte{0xff}, n)
	case "text":
		line := []byte(fmt.Sprintf("stale line %d of a file that was here before\n", seed%1000))
		return bytes.Repeat(line, n/len(line)+1)[:n]
	}
	b := make([]byte, n)
	r := rng.New(seed)
	for i := 0; i+8 <= n; i += 8 {
		v := r.U64()
		for k := 0; k < 8; k++ {
			b[i+k] = byte(v >> (8 * k))
		}
	}
	for i := n &^ 7; i < n; i++ {
		b[i] = byte(r.Intn(255) + 1)
	}
	return b
}

type countingReader struct {
	r io.Reader
	n int
}

func (c *countingReader) Read(p []byte) (int, error) {
	n, err := c.r.Read(p)
	c.n += n
	return n, err
}

// endOfArchive: offset just behind the end-of-archive marker as an archive/tar reader finds it
func endOfArchive(data []byte) (int, error) {
	cr := &countingReader{r: bytes.NewReader(data)}
	tr := tar.NewReader(cr)
	for {
		_, err := tr.Next()
		if err == io.EOF {
			return cr.n, nil
		}
		if err != nil {
			return cr.n, err
		}
		if _, err := io.Copy(io.Discard, tr); err != nil {
			return cr.n, err
		}
	}
}

// programTest: the compressor's own integrity test of the file, as `tar xzf` / a user would meet it
func programTest(method int, path string) (bool, string) {
	cmd := exec.Command(methodFlag[method], "-t", path)
	out, err := cmd.CombinedOutput()
	return err == nil && len(bytes.TrimSpace(out)) == 0, string(bytes.TrimSpace(out))
}

// inspectOutput: what a reader of the whole file sees
func inspectOutput(method int, path string, plain []byte, root string) (data []byte, whole, same bool, rest int, note string) {
	data, err := os.ReadFile(path)
	if err != nil {
		return nil, false, false, 0, err.Error()
	}
	if method == 0 {
		end, rerr := endOfArchive(data)
		if rerr != nil {
			return data, false, false, len(data), "archive/tar: " + rerr.Error()
		}
		last := len(data)
		for last > end && data[last-1] == 0 {
			last--
		}
		whole = last == end
		if !whole {
			rest = len(data) - end
			note = fmt.Sprintf("%d bytes after the end-of-archive marker at %d, not all zero", len(data)-end, end)
		}
		return data, whole, sameArchive(data, plain, root), rest, note
	}
	dec, derr := decompress(method, data)
	ok, msg := programTest(method, path)
	whole = derr == nil && ok
	same = len(dec) > 0 && sameArchive(dec, plain, root)
	if !whole {
		if derr != nil {
			note = "decompress: " + derr.Error()
		}
		if msg != "" {
			note += " | " + methodFlag[method] + " -t: " + msg
		}
	}
	return data, whole, same, 0, note
}

// runPre performs the pre runs of a case.  args: the command line of the main run without -o;
// lines: the add-files lines; plain: the archive the main run wrote to a fresh path.
func runPre(tmp, root string, args []string, lines []string, plain []byte, specs []PreSpec) (terms []string, desc []preObs) {
	terms = []string{}
	for k, p := range specs {
		if p.Method < 0 || p.Method > 3 || p.PMethod < 0 || p.PMethod > 3 {
			continue
		}
		ob := preObs{Method: methodFlag[p.Method], Via: p.Via, Kind: p.Kind}
		outArgs := func(method int, path string) []string {
			a := append([]string{}, args...)
			if p.Via != "ext" {
				a = append(a, "-compress", methodFlag[method])
			}
			return append(a, "-o", path)
		}
		pathFor := func(stem string, method int) string {
			if p.Via == "ext" {
				return fmt.Sprintf("%s/%s%d%s", tmp, stem, k, methodExt[method])
			}
			return fmt.Sprintf("%s/%s%d.bin", tmp, stem, k)
		}
		// the reference: the same run to a path that does not exist
		fresh := plain
		freshRun := func() bool {
			if p.Method == 0 {
				return true
			}
			fp := pathFor("fresh", p.Method)
			os.Remove(fp)
			if rc, _ := runStagemaker(tmp, outArgs(p.Method, fp), nil); rc != 0 {
				ob.Skipped = fmt.Sprintf("reference run exit %d", rc)
				return false
			}
			fresh, _ = os.ReadFile(fp)
			os.Remove(fp)
			return true
		}
		if !freshRun() {
			desc = append(desc, ob)
			continue
		}
		ob.FreshLen = len(fresh)
		// the path and what it holds
		path := pathFor("pre", p.Method)
		os.Remove(path)
		switch p.Kind {
		case "absent":
		case "bigger", "other":
			a := outArgs(p.Method, path)
			if p.Kind == "bigger" {
				big := fmt.Sprintf("%s/r5big%d", tmp, k)
				must(os.WriteFile(big, fillBytes("random", p.Seed, p.BigSize), 0644))
				af := fmt.Sprintf("%s/addfiles.r5.%d", tmp, k)
				extra := fmt.Sprintf("file /opt/c07-r5-earlier-%d src=%s", k, big)
				must(os.WriteFile(af, []byte(joinLines(append(append([]string{}, lines...), extra))), 0644))
				for i := range a {
					if a[i] == "-addfiles" && i+1 < len(a) {
						a[i+1] = af
					}
				}
			} else {
				// the earlier stage of this very tree, through another compressor, under this name
				a = append([]string{}, args...)
				a = append(a, "-compress", methodFlag[p.PMethod], "-o", path)
			}
			if rc, _ := runStagemaker(tmp, a, nil); rc != 0 {
				// not a stage then: leave random bytes of a plausible size
				must(os.WriteFile(path, fillBytes("random", p.Seed, len(fresh)*2+p.Extra), 0644))
				ob.Note = fmt.Sprintf("earlier run exit %d, random bytes instead", rc)
			}
		default:
			n := int(int64(len(fresh))*int64(p.Permille)/1000) + p.Extra
			if n > 8<<20 {
				n = 8 << 20
			}
			must(os.WriteFile(path, fillBytes(p.Kind, p.Seed, n), 0644))
		}
		var priorBytes []byte
		if b, err := os.ReadFile(path); err == nil {
			ob.Existed, ob.PriorLen, priorBytes = true, len(b), b
		}
		note0 := ob.Note
		for attempt := 0; ; attempt++ {
			if attempt > 0 {
				// The length of COMPRESSED output is a function of the archive bytes, and members that
				// stagemaker synthesises carry the clock of their run: the reference run and the run
				// under test can differ in length when a second ticks between them (seen: gzip 5600 vs
				// 5584).  Then both are repeated right after a tick, from the same previous content.
				now := time.Now()
				time.Sleep(now.Truncate(time.Second).Add(time.Second + 5*time.Millisecond).Sub(now))
				if !freshRun() {
					break
				}
				ob.FreshLen = len(fresh)
				if ob.Existed {
					must(os.WriteFile(path, priorBytes, 0644))
				} else {
					os.Remove(path)
				}
			}
			// the run under test
			ob.Attempts = attempt + 1
			ob.Exit, _ = runStagemaker(tmp, outArgs(p.Method, path), nil)
			ob.Note = note0
			if ob.Exit != 0 {
				// the fresh-path run succeeded: a failure here depends on what the path held
				ob.Note += " exit status differs from the fresh-path run"
			}
			var data []byte
			data, ob.Whole, ob.Same, ob.Rest, ob.Note = inspectOutputNote(p.Method, path, plain, root, ob.Note)
			ob.Len = len(data)
			if ob.Exit != 0 {
				ob.Whole, ob.Same = false, false
			}
			if p.Method == 0 || !ob.Whole || ob.Len == ob.FreshLen || attempt >= 3 {
				break
			}
		}
		if ob.Skipped != "" {
			desc = append(desc, ob)
			continue
		}
		if p.Method != 0 && !ob.Whole && ob.Len > ob.FreshLen {
			ob.Rest = ob.Len - ob.FreshLen
		}
		os.Remove(path)
		prior := q.None()
		if ob.Existed {
			prior = q.Some(q.N(uint64(ob.PriorLen)))
		}
		terms = append(terms, q.App("C07.MkOut", q.N(uint64(p.Method)), prior, q.N(uint64(ob.FreshLen)),
			q.N(uint64(ob.Len)), q.Bool(ob.Whole), q.Bool(ob.Same)))
		desc = append(desc, ob)
	}
	return terms, desc
}

func inspectOutputNote(method int, path string, plain []byte, root string, note0 string) ([]byte, bool, bool, int, string) {
	data, whole, same, rest, note := inspectOutput(method, path, plain, root)
	if note0 != "" && note != "" {
		note = note0 + "; " + note
	} else if note0 != "" {
		note = note0
	}
	return data, whole, same, rest, note
}

func joinLines(l []string) string {
	s := ""
	for _, x := range l {
		s += x + "\n"
	}
	return s
}
