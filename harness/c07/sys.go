package c07

// Independent measurement of file-system objects (the "world" handed to the Coq model):
// own lstat / readlink / llistxattr / lgetxattr with generous buffers -- none of the code
// under test is used here.

import (
	"bytes"
	"sort"
	"syscall"
	"unsafe"
)

func bytePtr(s string) *byte {
	b := append([]byte(s), 0)
	return &b[0]
}

func llistxattr(path string) ([]string, error) {
	buf := make([]byte, 1<<17)
	n, _, e := syscall.Syscall(syscall.SYS_LLISTXATTR, uintptr(unsafe.Pointer(bytePtr(path))),
		uintptr(unsafe.Pointer(&buf[0])), uintptr(len(buf)))
	if e != 0 {
		return nil, e
	}
	var names []string
	for _, p := range bytes.Split(buf[:n], []byte{0}) {
		if len(p) > 0 {
			names = append(names, string(p))
		}
	}
	sort.Strings(names)
	return names, nil
}

func lgetxattr(path, name string) (string, error) {
	buf := make([]byte, 1<<17)
	n, _, e := syscall.Syscall6(syscall.SYS_LGETXATTR, uintptr(unsafe.Pointer(bytePtr(path))),
		uintptr(unsafe.Pointer(bytePtr(name))), uintptr(unsafe.Pointer(&buf[0])), uintptr(len(buf)), 0, 0)
	if e != 0 {
		return "", e
	}
	return string(buf[:n]), nil
}

func lsetxattr(path, name, value string) error {
	var vp unsafe.Pointer
	vb := []byte(value)
	if len(vb) > 0 {
		vp = unsafe.Pointer(&vb[0])
	} else {
		vp = unsafe.Pointer(bytePtr(""))
	}
	_, _, e := syscall.Syscall6(syscall.SYS_LSETXATTR, uintptr(unsafe.Pointer(bytePtr(path))),
		uintptr(unsafe.Pointer(bytePtr(name))), uintptr(vp), uintptr(len(vb)), 0, 0)
	if e != 0 {
		return e
	}
	return nil
}

func readlinkFull(path string) (string, error) {
	buf := make([]byte, 1<<16)
	n, err := syscall.Readlink(path, buf)
	if err != nil {
		return "", err
	}
	return string(buf[:n]), nil
}

// Linux dev_t encoding (glibc makedev)
func makedev(major, minor uint64) uint64 {
	return ((major & 0xfffff000) << 32) | ((major & 0xfff) << 8) | ((minor & 0xffffff00) << 12) | (minor & 0xff)
}

func lutimes(path string, sec, nsec int64) error {
	ts := [2]syscall.Timespec{{Sec: sec, Nsec: nsec}, {Sec: sec, Nsec: nsec}}
	atFdcwd := -100
	_, _, e := syscall.Syscall6(syscall.SYS_UTIMENSAT, uintptr(atFdcwd), uintptr(unsafe.Pointer(bytePtr(path))),
		uintptr(unsafe.Pointer(&ts[0])), 0x100 /* AT_SYMLINK_NOFOLLOW */, 0, 0)
	if e != 0 {
		return e
	}
	return nil
}
