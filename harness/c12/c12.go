// Package c12: mountinfo tables -> fs.ProbeMounts and its queries (property C12).
package c12

import (
	"encoding/hex"
	"encoding/json"
	"fmt"
	"sort"
	"strings"

	"lcverif/common"
	q "lcverif/coqfmt"
	"lcverif/rng"

	"potano.layercake/fs"
)

type B = common.B

type KV struct {
	K    string
	V    string
	HasV bool
}

type KLine struct {
	ID, Parent, Dev, Root, MP, Opts string
	Optional                        []string
	Fstype, Source                  string
	Sopts                           []KV
}

// JSON images: all byte strings travel as hex
type kvJ struct {
	K    B    `json:"k"`
	V    B    `json:"v"`
	HasV bool `json:"hasv"`
}
type klineJ struct {
	ID, Parent, Dev, Root, MP, Opts B
	Optional                        []B
	Fstype, Source                  B
	Sopts                           []kvJ
}

type Input struct {
	Table   []klineJ `json:"table"` // nil when the lines are not a rendering
	HasTbl  bool     `json:"has_table"`
	Lines   []B      `json:"lines_hex"`
	Queries []B      `json:"queries_hex"`
}

func toJ(t []KLine) []klineJ {
	out := make([]klineJ, len(t))
	for i, k := range t {
		so := make([]kvJ, len(k.Sopts))
		for j, kv := range k.Sopts {
			so[j] = kvJ{B(kv.K), B(kv.V), kv.HasV}
		}
		out[i] = klineJ{B(k.ID), B(k.Parent), B(k.Dev), B(k.Root), B(k.MP), B(k.Opts), common.Bs(k.Optional),
			B(k.Fstype), B(k.Source), so}
	}
	return out
}
func fromJ(t []klineJ) []KLine {
	out := make([]KLine, len(t))
	for i, k := range t {
		so := make([]KV, len(k.Sopts))
		for j, kv := range k.Sopts {
			so[j] = KV{string(kv.K), string(kv.V), kv.HasV}
		}
		out[i] = KLine{string(k.ID), string(k.Parent), string(k.Dev), string(k.Root), string(k.MP), string(k.Opts),
			common.Ss(k.Optional), string(k.Fstype), string(k.Source), so}
	}
	return out
}


// ---- the kernel's rendering (second implementation; Coq checks it against Model.render) ----
func mangle(s string, esc string) string {
	var b strings.Builder
	for i := 0; i < len(s); i++ {
		c := s[i]
		if strings.IndexByte(esc, c) >= 0 {
			fmt.Fprintf(&b, "\\%03o", c)
		} else {
			b.WriteByte(c)
		}
	}
	return b.String()
}

const escPath = " \t\n\\"
const escOpt = " \t\n\\,"

func Render(k KLine) string {
	segs := []string{k.ID, k.Parent, k.Dev, mangle(k.Root, escPath), mangle(k.MP, escPath), k.Opts}
	segs = append(segs, k.Optional...)
	so := make([]string, len(k.Sopts))
	for i, kv := range k.Sopts {
		so[i] = mangle(kv.K, escOpt)
		if kv.HasV {
			so[i] += "=" + mangle(kv.V, escOpt)
		}
	}
	segs = append(segs, "-", k.Fstype, mangle(k.Source, escPath), strings.Join(so, ","))
	return strings.Join(segs, " ")
}

// ---- generators ----
var nameAtoms = []string{"a", "b", "mnt", "lib", "x y", "t\tb", "n\nl", `b\s`, `\040`, `\`, "1", "7", "040",
	"ü", "é中", "dev", "sys", "build", "layers", "with,comma", "k=v", "-", " ", "\\134", "9", "0", "\t1", "\n7", " 3"}

func genName(r *rng.R) string {
	n := 1 + r.Heavy(3)
	var b strings.Builder
	for i := 0; i < n; i++ {
		if r.Chance(1, 12) {
			c := byte(1 + r.Intn(255))
			if c == '/' {
				c = '_'
			}
			b.WriteByte(c)
		} else {
			b.WriteString(r.Pick(nameAtoms))
		}
	}
	s := b.String()
	if s == "." || s == ".." {
		s = "d" + s
	}
	return s
}

func genPath(r *rng.R, depth int) string {
	if depth == 0 {
		return "/"
	}
	parts := make([]string, depth)
	for i := range parts {
		parts[i] = genName(r)
	}
	return "/" + strings.Join(parts, "/")
}

var fstypes = []string{"ext4", "tmpfs", "proc", "overlay", "overlay", "devtmpfs", "sysfs", "devpts", "btrfs", "fuse.sshfs", "cgroup2", "mqueue"}

func genTable(r *rng.R) []KLine {
	n := 1 + r.Heavy(14)
	big := r.Chance(1, 8) // a busy host: more file systems than any initial capacity in the parser, old devices mounted again late
	if big {
		n = 22 + r.Intn(45)
	}
	tbl := make([]KLine, 0, n)
	devPool := []string{"8:1", "0:22", "0:5", "0:43", "254:0", "0:100"}
	for i := 0; i < n; i++ {
		var k KLine
		k.ID = fmt.Sprint(20 + 3*i + r.Range(0, 2))
		if i == 0 || r.Chance(1, 10) {
			k.Parent = fmt.Sprint(r.Range(1, 19))
		} else {
			k.Parent = tbl[r.Intn(len(tbl))].ID
		}
		k.Dev = r.Pick(devPool)
		if r.Chance(1, 6) || (big && r.Chance(2, 3)) {
			k.Dev = fmt.Sprintf("0:%d", 50+i)
		}
		if big && i > 20 && r.Chance(1, 3) { // a device of the first lines, mounted once more
			k.Dev = tbl[r.Intn(10)].Dev
		}
		if r.Chance(2, 3) {
			k.Root = "/"
		} else {
			k.Root = genPath(r, 1+r.Intn(2))
		}
		switch {
		case i > 0 && r.Chance(1, 8): // stacked on an earlier mountpoint
			k.MP = tbl[r.Intn(len(tbl))].MP
		case i > 0 && r.Chance(1, 2): // below an earlier mountpoint
			base := tbl[r.Intn(len(tbl))].MP
			if base == "/" {
				base = ""
			}
			k.MP = base + genPath(r, 1+r.Intn(2))
		default:
			k.MP = genPath(r, r.Intn(4))
		}
		k.Opts = r.Pick([]string{"rw", "rw,noatime", "ro,nosuid,nodev,noexec,relatime", "rw,relatime"})
		for j := r.Heavy(3); j > 0; j-- {
			k.Optional = append(k.Optional, r.Pick([]string{"shared:1", "master:7", "propagate_from:2", "unbindable", "shared:44"}))
		}
		k.Fstype = r.Pick(fstypes)
		if i > 0 && r.Chance(1, 3) {
			// child of a shadowing type chain: inherit a parent's id more often
			k.Parent = tbl[len(tbl)-1].ID
		}
		switch r.Intn(4) {
		case 0:
			k.Source = "none"
		case 1:
			k.Source = k.Fstype
		default:
			k.Source = genPath(r, 1+r.Intn(3))
		}
		if k.Fstype == "overlay" {
			k.Source = "overlay"
			k.Sopts = append(k.Sopts, KV{K: r.Pick([]string{"rw", "ro"})})
			parts := []KV{{"lowerdir", genPath(r, 1+r.Intn(3)), true}, {"upperdir", genPath(r, 1+r.Intn(3)), true},
				{"workdir", genPath(r, 1+r.Intn(3)), true}}
			extra := []KV{{"index", "off", true}, {"uuid", "on", true}, {"xino", "off", true}, {K: "nouserxattr"},
				{"redirect_dir", "on", true}, {"lowerdir", genPath(r, 2), true}}
			for j := r.Heavy(3); j > 0; j-- {
				parts = append(parts, extra[r.Intn(len(extra))])
			}
			if r.Chance(1, 6) { // a read-only overlay has no upper/work
				parts = parts[:1]
			}
			for j := len(parts) - 1; j > 0; j-- { // shuffle
				m := r.Intn(j + 1)
				parts[j], parts[m] = parts[m], parts[j]
			}
			k.Sopts = append(k.Sopts, parts...)
		} else {
			k.Sopts = []KV{{K: "rw"}}
			if r.Chance(1, 2) {
				k.Sopts = append(k.Sopts, KV{"errors", "continue", true})
			}
			if r.Chance(1, 4) {
				k.Sopts = append(k.Sopts, KV{"subvol", genPath(r, 1), true})
			}
		}
		tbl = append(tbl, k)
	}
	// deep paths: every path stays below PATH_MAX, but the mountinfo LINE of an overlay mount
	// (mountpoint + three directories, escapes tripling blanks) is longer than any 4 KiB buffer
	if r.Chance(1, 10) {
		long := func() string {
			var b strings.Builder
			for b.Len() < 1200+r.Intn(600) {
				b.WriteString("/" + r.Pick([]string{"deeply nested", "layer.d", "a\\b", "x"}) + genName(r))
			}
			return b.String()
		}
		for i := range tbl {
			if tbl[i].Fstype == "overlay" {
				tbl[i].MP = long()
				for j := range tbl[i].Sopts {
					if tbl[i].Sopts[j].HasV && strings.HasSuffix(tbl[i].Sopts[j].K, "dir") {
						tbl[i].Sopts[j].V = long()
					}
				}
				break
			}
		}
	}
	return tbl
}

func genQueries(r *rng.R, lines []string, tbl []KLine) []string {
	seen := map[string]bool{}
	out := []string{}
	add := func(s string) {
		if !seen[s] && len(out) < 12 {
			seen[s] = true
			out = append(out, s)
		}
	}
	for _, k := range tbl {
		if r.Chance(2, 3) {
			add(k.MP)
		}
		if r.Chance(1, 4) {
			if i := strings.LastIndexByte(k.MP, '/'); i > 0 {
				add(k.MP[:i])
			}
		}
		if r.Chance(1, 6) && len(k.MP) > 1 {
			add(k.MP[:len(k.MP)-1])
		}
	}
	add("/")
	add(genPath(r, 2))
	return out
}

// malformed stream: mutate rendered lines or emit soup
func mutateLines(r *rng.R, lines []string) []string {
	out := append([]string{}, lines...)
	for m := 1 + r.Intn(3); m > 0; m-- {
		if len(out) == 0 {
			out = append(out, "")
		}
		i := r.Intn(len(out))
		segs := strings.Split(out[i], " ")
		switch r.Intn(7) {
		case 0: // drop the separator
			for j, s := range segs {
				if s == "-" {
					segs = append(segs[:j], segs[j+1:]...)
					break
				}
			}
		case 1: // truncate
			segs = segs[:r.Intn(len(segs)+1)]
		case 2: // soup
			b := make([]byte, r.Heavy(40))
			for j := range b {
				b[j] = byte(r.Intn(256))
				if b[j] == '\n' || b[j] == '\r' {
					b[j] = ' '
				}
			}
			segs = []string{string(b)}
		case 3: // separator at the very end
			segs = append(segs[:0:0], segs...)
			for j, s := range segs {
				if s == "-" {
					e := j + 1 + r.Intn(2)
					if e > len(segs) {
						e = len(segs)
					}
					segs = segs[:e]
					break
				}
			}
			for len(segs) < 10 {
				segs = append([]string{"x"}, segs...)
			}
		case 4: // double space
			j := r.Intn(len(segs) + 1)
			segs = append(segs[:j:j], append([]string{""}, segs[j:]...)...)
		case 5: // dangling escapes
			j := r.Intn(len(segs))
			segs[j] += r.Pick([]string{`\`, `\0`, `\04`, `\9`, `\\`, `\400`, `\777`, `\08x`})
		case 6: // blank line
			segs = []string{}
		}
		out[i] = strings.Join(segs, " ")
	}
	return out
}

func init() {
	common.Register("c12", common.Prop{
		Generate: func(r common.Rand, tier string, n int, emit func(*common.Case)) {
			Generate(rng.New(r.U64()), tier, n, emit)
		},
		Replay: RunJSON,
	})
}

func Generate(r *rng.R, tier string, n int, emit func(*common.Case)) {
	for i := 0; i < n; i++ {
		cr := r.Split()
		sub := cr.U64()
		cr = rng.New(sub)
		var in Input
		var tbl []KLine
		var ask []string
		subtree := i%6 == 3 // one file system seen through mounts of related subtrees (r5_subtree.go)
		if subtree {
			tbl, ask = genSubtreeTable(cr)
		} else {
			tbl = genTable(cr)
		}
		lines := make([]string, len(tbl))
		for j, k := range tbl {
			lines[j] = Render(k)
		}
		if i%5 == 4 { // malformed stream
			lines = mutateLines(cr, lines)
			in.HasTbl = false
		} else {
			in.Table = toJ(tbl)
			in.HasTbl = true
		}
		in.Lines = common.Bs(lines)
		if subtree {
			in.Queries = common.Bs(genSubtreeQueries(cr, lines, tbl, ask))
		} else {
			in.Queries = common.Bs(genQueries(cr, lines, tbl))
		}
		c := Run(in)
		c.Sub = sub
		emit(c)
	}
}

// ---- running the implementation ----
type mountObs struct {
	Source, MP, Source2, Workdir, Fstype, Options string
	Shadow                                        bool
	Dev, Root                                     string
}

func mountTerm(m mountObs) string {
	return q.App("MkMount", q.Hx(m.Source), q.Hx(m.MP), q.Hx(m.Source2), q.Hx(m.Workdir), q.Hx(m.Fstype),
		q.Hx(m.Options), q.Bool(m.Shadow), q.Hx(m.Dev), q.Hx(m.Root))
}

func obsOf(e fs.MountType) mountObs {
	d, rt := fs.VerifMountPrivate(&e)
	return mountObs{e.Source, e.Mountpoint, e.Source2, e.Workdir, e.Fstype, e.Options, e.InShadow, d, rt}
}

func Run(in Input) (c *common.Case) {
	lines := common.Ss(in.Lines)
	queries := common.Ss(in.Queries)
	text := strings.Join(lines, "\n")
	if len(lines) > 0 {
		text += "\n"
	}
	desc := map[string]interface{}{"input": in, "lines": lines}
	c = &common.Case{Desc: desc}

	// input term
	tblTerm := q.None()
	if in.HasTbl {
		ks := make([]string, len(in.Table))
		for i, k := range fromJ(in.Table) {
			so := make([]string, len(k.Sopts))
			for j, kv := range k.Sopts {
				v := q.None()
				if kv.HasV {
					v = q.Some(q.Hx(kv.V))
				}
				so[j] = q.Pair(q.Hx(kv.K), v)
			}
			ks[i] = q.App("MkK", q.Hx(k.ID), q.Hx(k.Parent), q.Hx(k.Dev), q.Hx(k.Root), q.Hx(k.MP), q.Hx(k.Opts),
				q.HxList(k.Optional), q.Hx(k.Fstype), q.Hx(k.Source), q.List(so))
		}
		tblTerm = q.Some(q.List(ks))
	}

	var obsTerm string
	func() {
		defer func() {
			if e := recover(); e != nil {
				desc["obs"] = fmt.Sprintf("panic: %v", e)
				obsTerm = "(C12.MkObs PPanic [] [])"
			}
		}()
		save := fs.GetAlternateProbeMountsCursor
		defer func() { fs.GetAlternateProbeMountsCursor = save }()
		fs.GetAlternateProbeMountsCursor = func() fs.LineReader {
			return fs.NewTextInputCursor("mountinfo", strings.NewReader(text))
		}
		m, err := fs.ProbeMounts()
		if err != nil {
			panic(err)
		}
		ml := m.VerifMountList()
		mts := make([]string, len(ml))
		mobs := make([]mountObs, len(ml))
		for i, e := range ml {
			mobs[i] = obsOf(e.MountType)
			mts[i] = mountTerm(mobs[i])
		}
		dl := m.VerifDeviceList()
		dts := make([]string, len(dl))
		for i, d := range dl {
			srs := make([]string, len(d.Subroots))
			for j, sr := range d.Subroots {
				srs[j] = q.Pair(q.Hx(sr[0]), q.Hx(sr[1]))
			}
			dts[i] = q.App("MkDev", q.Hx(d.StDev), q.Hx(d.Name), q.HxList(d.Roots), q.List(srs))
		}
		qts := make([]string, len(queries))
		qdesc := []interface{}{}
		for i, p := range queries {
			mnt := m.GetMount(p)
			mt, st := q.None(), q.None()
			var srcs []string
			if mnt != nil {
				mt = q.Some(mountTerm(obsOf(*mnt)))
				func() {
					defer func() {
						if recover() != nil {
							st = q.Some("SPanic")
						}
					}()
					srcs = m.GetMountSources(mnt)
					st = q.Some(q.App("SOk", q.HxList(srcs)))
				}()
			}
			subs := []string{}
			for _, s := range m.GetMountAndSubmounts(p) {
				subs = append(subs, s.Mountpoint)
			}
			qts[i] = q.App("C12.MkQ", mt, q.HxList(subs), st)
			qdesc = append(qdesc, map[string]interface{}{"path": p, "found": mnt != nil, "subs": subs, "sources": srcs})
		}
		lows := []string{}
		for k := range m.GetOverlayLowerdirs() {
			lows = append(lows, k)
		}
		sort.Strings(lows)
		desc["obs"] = map[string]interface{}{"mounts": mobs, "devices": dl, "queries": qdesc, "lowerdirs": lows}
		obsTerm = q.App("C12.MkObs", q.App("POk", q.List(mts), q.List(dts)), q.List(qts), q.HxList(lows))
	}()

	c.Coq = q.App("C12.MkCase", tblTerm, q.HxList(lines), q.HxList(queries), obsTerm)
	c.Key = hex.EncodeToString([]byte(strings.Join(lines, "\n")))
	text2 := strings.Join(lines, "\n")
	classes := []string{}
	if !in.HasTbl {
		classes = append(classes, "malformed")
	} else {
		classes = append(classes, "rendered")
	}
	if strings.Contains(text2, "\\") {
		classes = append(classes, "escape")
		c.Nontrivial = true
	}
	if strings.Contains(text2, " - overlay ") {
		classes = append(classes, "overlay")
		c.Nontrivial = true
	}
	if strings.Contains(text2, " - devtmpfs ") || strings.Contains(text2, " - sysfs ") {
		classes = append(classes, "shadowing")
		c.Nontrivial = true
	}
	if strings.Contains(text2, "shared:") || strings.Contains(text2, "master:") {
		classes = append(classes, "optional-fields")
		c.Nontrivial = true
	}
	if in.HasTbl {
		cl := subtreeClasses(fromJ(in.Table))
		if len(cl) > 0 {
			c.Nontrivial = true
		}
		classes = append(classes, cl...)
	}
	classes = append(classes, fmt.Sprintf("mounts=%d", len(lines)))
	c.Classes = classes
	return c
}

func RunJSON(raw json.RawMessage) (*common.Case, error) {
	var in Input
	if err := json.Unmarshal(raw, &in); err != nil {
		return nil, err
	}
	return Run(in), nil
}
