package c12

// Mount tables in which one file system is visible through several mounts of
// (nested) subtrees: btrfs subvolumes, bind mounts of subdirectories.  The random
// tables of genTable practically never put the root of one mount below the root of
// another mount of the same device, so the "same directory as seen through a mount
// of a subtree" candidates of GetMountSources were only ever exercised with an
// empty answer.  Here the roots are built relative to each other: equal to a
// subtree root, below it (first component hidden / with blanks / ordinary), a mere
// string extension of it, above it, unrelated.

import (
	"fmt"
	"strings"

	"lcverif/rng"
)

var hiddenAtoms = []string{".", "..", ".a", ".cache", ".pkg cache", "..data", ".config", ".x\ty", ".snapshots", ".\\040", "...", ".local"}
var plainAtoms = []string{"@home", "@", "@snap", "home", "data", "srv", "bin", "pkg cache", "a", "b", "x y", "var", "binpkgs", "a.b", "x.", "-"}

// one path component; never "." or ".." (the kernel does not show such roots)
func genComponent(r *rng.R, hidden bool) string {
	var s string
	switch {
	case hidden:
		s = r.Pick(hiddenAtoms)
		if s == "." || s == ".." || r.Chance(1, 3) {
			s += r.Pick(plainAtoms)
		}
	case r.Chance(1, 4):
		s = genName(r)
	default:
		s = r.Pick(plainAtoms)
		if r.Chance(1, 5) {
			s += r.Pick(hiddenAtoms) // a dot inside or at the end of a name
		}
	}
	if s == "." || s == ".." {
		s = "d" + s
	}
	return s
}

// 1..depth components, each hidden with probability 1/3
func genRelPath(r *rng.R, depth int) string {
	n := 1 + r.Intn(depth)
	parts := make([]string, n)
	for i := range parts {
		parts[i] = genComponent(r, r.Chance(1, 3))
	}
	return strings.Join(parts, "/")
}

// a root related to the subtree root sr ("/…", not "/")
func genRelatedRoot(r *rng.R, sr string) string {
	switch r.Intn(12) {
	case 0: // the very same subtree
		return sr
	case 1, 2, 3, 4: // below it, first component hidden
		p := sr + "/" + genComponent(r, true)
		if r.Chance(1, 2) {
			p += "/" + genRelPath(r, 2)
		}
		return p
	case 5, 6: // below it, first component ordinary, hidden ones deeper
		p := sr + "/" + genComponent(r, false)
		if r.Chance(2, 3) {
			p += "/" + genComponent(r, true)
		}
		if r.Chance(1, 3) {
			p += "/" + genRelPath(r, 2)
		}
		return p
	case 7: // the same bytes and more, but no descendant
		return sr + r.Pick([]string{"x", ".d", " ", ".", "..", "-"}) + r.Pick([]string{"", "/a", "/.b"})
	case 8: // an ancestor or a sibling of the subtree root
		i := strings.LastIndexByte(sr, '/')
		if i == 0 || r.Bool() {
			return sr[:i] + "/" + genComponent(r, r.Bool())
		}
		return sr[:i]
	case 9: // the whole file system
		return "/"
	case 10: // a hidden directory of the file system's own root
		return "/" + genComponent(r, true)
	default:
		return "/" + genRelPath(r, 3)
	}
}

func genMountpoint(r *rng.R, used map[string]bool, earlier []KLine) string {
	for try := 0; ; try++ {
		var mp string
		if len(earlier) > 0 && r.Chance(1, 3) {
			base := earlier[r.Intn(len(earlier))].MP
			if base == "/" {
				base = ""
			}
			mp = base + "/" + genRelPath(r, 2)
		} else {
			mp = "/" + genRelPath(r, 3)
		}
		if !used[mp] || try > 8 {
			used[mp] = true
			return mp
		}
	}
}

// genSubtreeTable returns the table and the mountpoints worth asking for.
func genSubtreeTable(r *rng.R) ([]KLine, []string) {
	tbl := []KLine{}
	ask := []string{}
	used := map[string]bool{"/": true}
	id := 20 + r.Intn(30)
	line := func(dev, root, mp, fstype, source string) {
		k := KLine{ID: fmt.Sprint(id), Dev: dev, Root: root, MP: mp, Fstype: fstype, Source: source}
		id += 1 + r.Intn(3)
		if len(tbl) == 0 {
			k.Parent = fmt.Sprint(r.Range(1, 19))
		} else {
			k.Parent = tbl[r.Intn(len(tbl))].ID
		}
		k.Opts = r.Pick([]string{"rw", "rw,noatime", "rw,relatime", "ro,relatime"})
		for j := r.Heavy(2); j > 0; j-- {
			k.Optional = append(k.Optional, r.Pick([]string{"shared:1", "master:7", "shared:44"}))
		}
		k.Sopts = []KV{{K: "rw"}}
		if fstype == "btrfs" && root != "/" {
			top := root
			if i := strings.IndexByte(root[1:], '/'); i >= 0 {
				top = root[:i+1]
			}
			k.Sopts = append(k.Sopts, KV{"subvolid", fmt.Sprint(256 + r.Intn(40)), true}, KV{"subvol", top, true})
		}
		tbl = append(tbl, k)
	}
	// an unrelated root file system first, most of the time
	if r.Chance(3, 4) {
		line("8:1", "/", "/", "ext4", "/dev/sda1")
	}
	nfs := 1 + r.Intn(2)
	for f := 0; f < nfs; f++ {
		dev := fmt.Sprintf("0:%d", 30+r.Intn(40))
		fstype := r.Pick([]string{"btrfs", "btrfs", "ext4", "xfs", "tmpfs"})
		source := r.Pick([]string{"/dev/sdb2", "/dev/mapper/vg-home", "/dev/nvme0n1p3", "tmpfs", "/dev/disk/by label/x y"})
		// the subtree mounts: the first is a top-level subtree, later ones may nest
		subroots := []string{}
		nsub := 1 + r.Intn(3)
		mounts := [][2]string{} // root, kind
		for s := 0; s < nsub; s++ {
			var root string
			if s == 0 || r.Chance(1, 3) {
				root = "/" + genComponent(r, r.Chance(1, 5))
				if r.Chance(1, 3) {
					root += "/" + genComponent(r, r.Chance(1, 4))
				}
			} else {
				root = genRelatedRoot(r, subroots[r.Intn(len(subroots))])
			}
			if root != "/" {
				subroots = append(subroots, root)
			}
			mounts = append(mounts, [2]string{root, "sub"})
		}
		// the file system as a whole, sometimes (any position)
		if r.Chance(1, 3) {
			mounts = append(mounts, [2]string{"/", "whole"})
		}
		// binds of directories related to the subtree roots
		for b := 1 + r.Intn(4); b > 0; b-- {
			mounts = append(mounts, [2]string{genRelatedRoot(r, subroots[r.Intn(len(subroots))]), "bind"})
		}
		if r.Chance(1, 2) { // the order of the lines is not the order of mounting
			for j := len(mounts) - 1; j > 0; j-- {
				m := r.Intn(j + 1)
				mounts[j], mounts[m] = mounts[m], mounts[j]
			}
		}
		for _, m := range mounts {
			var mp string
			switch {
			case m[1] == "bind" && len(tbl) > 0 && r.Chance(1, 8):
				// mounted exactly where it is visible through an earlier mount of this device
				// (the candidate equal to the mountpoint itself is no source)
				k := tbl[len(tbl)-1]
				if k.Dev == dev && k.Root != "/" && strings.HasPrefix(m[0], k.Root+"/") {
					mp = k.MP + m[0][len(k.Root):]
					used[mp] = true
				} else {
					mp = genMountpoint(r, used, tbl)
				}
			default:
				mp = genMountpoint(r, used, tbl)
			}
			line(dev, m[0], mp, fstype, source)
			ask = append(ask, mp)
		}
	}
	// other mounts around them
	for e := r.Heavy(3); e > 0; e-- {
		line(fmt.Sprintf("0:%d", 80+r.Intn(9)), "/", genMountpoint(r, used, tbl), r.Pick([]string{"tmpfs", "proc", "sysfs", "devtmpfs"}), "none")
	}
	return tbl, ask
}

// queries for a subtree table: the related mounts first (at most 10), then the usual ones
func genSubtreeQueries(r *rng.R, lines []string, tbl []KLine, ask []string) []string {
	seen := map[string]bool{}
	out := []string{}
	for j := len(ask) - 1; j > 0; j-- {
		m := r.Intn(j + 1)
		ask[j], ask[m] = ask[m], ask[j]
	}
	for _, p := range ask {
		if !seen[p] && len(out) < 10 {
			seen[p] = true
			out = append(out, p)
		}
	}
	for _, p := range genQueries(r, lines, tbl) {
		if !seen[p] && len(out) < 12 {
			seen[p] = true
			out = append(out, p)
		}
	}
	return out
}

// classes for the evidence: how the roots of mounts of one device relate
func subtreeClasses(tbl []KLine) []string {
	below, hidden := false, false
	for i, a := range tbl {
		for j, b := range tbl {
			if i != j && a.Dev == b.Dev && b.Root != "/" && strings.HasPrefix(a.Root, b.Root+"/") {
				below = true
				if strings.HasPrefix(a.Root, b.Root+"/.") {
					hidden = true
				}
			}
		}
	}
	out := []string{}
	if below {
		out = append(out, "root-below-subtree")
	}
	if hidden {
		out = append(out, "hidden-below-subtree")
	}
	return out
}
