// Package c13: (dependency atom, installed package, parent flags) -> the real atom parser,
// DependAtom.VersionAndSlotMatch / FilterAtoms (property C13).
package c13

import (
	"encoding/json"
	"fmt"
	"strings"
	"time"

	"lcverif/common"
	q "lcverif/coqfmt"
	"lcverif/rng"

	"potano.layercake/portage/atom"
	"potano.layercake/portage/depend"
)

// ---- structured input (all strings are ASCII by construction: the PMS grammar is ASCII) ----
type Suf struct {
	Kind   int    `json:"kind"` // 0 alpha 1 beta 2 pre 3 rc 4 p
	HasNum bool   `json:"has_num"`
	Num    string `json:"num"`
}
type Ver struct {
	Nums   []string `json:"nums"`
	Letter string   `json:"letter"` // "" or one lower-case letter
	Sufs   []Suf    `json:"sufs"`
	HasRev bool     `json:"has_rev"`
	Rev    string   `json:"rev"`
}
type UseDep struct {
	Form int    `json:"form"` // 0 [f] 1 [-f] 2 [f=] 3 [!f=] 4 [f?] 5 [!f?]
	Flag string `json:"flag"`
	Def  int    `json:"def"` // 0 none 1 (+) 2 (-)
}
type IuseTok struct {
	Prefix int    `json:"prefix"` // 0 none 1 "+" 2 "-"
	Flag   string `json:"flag"`
}
type PFlag struct {
	Flag string `json:"flag"`
	On   bool   `json:"on"`
}
type Input struct {
	Cat, Name string
	Block     int  `json:"block"` // 0, 1 "!", 2 "!!"
	HasVer    bool `json:"has_ver"`
	Op        int  `json:"op"` // 0 < 1 <= 2 = 3 >= 4 > 5 ~ 6 =*
	AVer      Ver  `json:"aver"`
	SlotKind  int  `json:"slot_kind"` // 0 none 1 :* 2 := 3 :slot
	Slot      string
	HasSub    bool `json:"has_sub"`
	Sub       string
	SlotEq    bool      `json:"slot_eq"`
	Use       []UseDep  `json:"use"`
	UseOrder  int       `json:"use_order"` // 0: flag suffix default, 1: PMS order flag default suffix
	Route     int       `json:"route"` // 0 depend.DecodeDependencies, 1 depend.NewDependencyAtom (no USE deps)
	PVer      Ver       `json:"pver"`
	PSlot     string    `json:"pslot"`
	PHasSub   bool      `json:"phas_sub"`
	PSub      string    `json:"psub"`
	PRoute    int       `json:"proute"` // 0 slot in the atom text, 1 SetSlotAndSubslot
	IUSE      []IuseTok `json:"iuse"`
	USE       []string  `json:"use_on"`
	Parent    []PFlag   `json:"parent"`
	// round 5: the candidate / the depending package as a VDB entry read by the real loader
	// (nil: the flags are set directly from IUSE/USE resp. Parent, as before)
	Cand *VdbEnt `json:"cand_vdb,omitempty"`
	Par  *VdbEnt `json:"parent_vdb,omitempty"`
}

var kindNames = []string{"_alpha", "_beta", "_pre", "_rc", "_p"}
var kindCoq = []string{"PMS.SAlpha", "PMS.SBeta", "PMS.SPre", "PMS.SRc", "PMS.SP"}
var opPrefix = []string{"<", "<=", "=", ">=", ">", "~", "="}
var opCoq = []string{"PMS.OpLt", "PMS.OpLe", "PMS.OpEq", "PMS.OpGe", "PMS.OpGt", "PMS.OpTilde", "PMS.OpGlob"}
var opName = []string{"lt", "le", "eq", "ge", "gt", "tilde", "glob"}
var formCoq = []string{"PMS.UEnabled", "PMS.UDisabled", "PMS.USame", "PMS.UOpposite", "PMS.UIf", "PMS.UIfNot"}
var defCoq = []string{"PMS.DNone", "PMS.DPlus", "PMS.DMinus"}

func (v Ver) String() string {
	s := strings.Join(v.Nums, ".") + v.Letter
	for _, f := range v.Sufs {
		s += kindNames[f.Kind]
		if f.HasNum {
			s += f.Num
		}
	}
	if v.HasRev {
		s += "-r" + v.Rev
	}
	return s
}

// the USE dependency text.  order 0: prefix flag suffix default ("f=(+)", the only order the
// parser accepted when this check was written); order 1: the PMS order "f(+)="
func (u UseDep) Text(order int) string {
	pre := []string{"", "-", "", "!", "", "!"}[u.Form]
	suf := []string{"", "", "=", "=", "?", "?"}[u.Form]
	def := []string{"", "(+)", "(-)"}[u.Def]
	if order == 1 {
		return pre + u.Flag + def + suf
	}
	return pre + u.Flag + suf + def
}

func useString(us []UseDep, order int) string {
	if len(us) == 0 {
		return ""
	}
	parts := make([]string, len(us))
	for i, u := range us {
		parts[i] = u.Text(order)
	}
	return "[" + strings.Join(parts, ",") + "]"
}

// "[flag(+)=]" is the order PMS writes; the parser's answer to it is an OBSERVATION (a parser that
// refuses it yields OErr where the model predicts a match), never a reason not to generate it
func pmsOrderAccepted() bool { return true }

func (in Input) DepString() string {
	s := []string{"", "!", "!!"}[in.Block]
	if in.HasVer {
		s += opPrefix[in.Op]
	}
	s += in.Cat + "/" + in.Name
	if in.HasVer {
		s += "-" + in.AVer.String()
		if in.Op == 6 {
			s += "*"
		}
	}
	switch in.SlotKind {
	case 1:
		s += ":*"
	case 2:
		s += ":="
	case 3:
		s += ":" + in.Slot
		if in.HasSub {
			s += "/" + in.Sub
		}
		if in.SlotEq {
			s += "="
		}
	}
	return s + useString(in.Use, in.UseOrder)
}

func (in Input) FlagsOnlyDepString() string {
	return in.Cat + "/" + in.Name + useString(in.Use, in.UseOrder)
}

func (in Input) PkgString() string {
	s := in.Cat + "/" + in.Name + "-" + in.PVer.String()
	if in.PRoute == 0 {
		s += ":" + in.PSlot
		if in.PHasSub {
			s += "/" + in.PSub
		}
	}
	return s
}

func (in Input) IuseLine() string {
	parts := make([]string, len(in.IUSE))
	for i, t := range in.IUSE {
		parts[i] = []string{"", "+", "-"}[t.Prefix] + t.Flag
	}
	return strings.Join(parts, " ")
}
func (in Input) UseLine() string { return strings.Join(in.USE, " ") }

// ---- Coq terms ----
func verTerm(v Ver) string {
	letter := q.None()
	if v.Letter != "" {
		letter = q.Some(fmt.Sprintf("(nb %d%%N)", v.Letter[0]))
	}
	sufs := make([]string, len(v.Sufs))
	for i, f := range v.Sufs {
		n := q.None()
		if f.HasNum {
			n = q.Some(q.Hx(f.Num))
		}
		sufs[i] = q.Pair(kindCoq[f.Kind], n)
	}
	rev := q.None()
	if v.HasRev {
		rev = q.Some(q.Hx(v.Rev))
	}
	return q.App("PMS.MkVer", q.HxList(v.Nums), letter, q.List(sufs), rev)
}

func inputTerm(in Input) (atomT, pkgT, parentT string) {
	ver := q.None()
	if in.HasVer {
		ver = q.Some(q.Pair(opCoq[in.Op], verTerm(in.AVer)))
	}
	slot := "PMS.SNone"
	switch in.SlotKind {
	case 1:
		slot = "PMS.SAnyStar"
	case 2:
		slot = "PMS.SAnyEq"
	case 3:
		sub := q.None()
		if in.HasSub {
			sub = q.Some(q.Hx(in.Sub))
		}
		slot = q.App("PMS.SSlot", q.Hx(in.Slot), sub, q.Bool(in.SlotEq))
	}
	us := make([]string, len(in.Use))
	for i, u := range in.Use {
		us[i] = q.App("PMS.MkUD", formCoq[u.Form], q.Hx(u.Flag), defCoq[u.Def])
	}
	atomT = q.App("C13.MkAtom", ver, slot, q.List(us))
	psub := q.None()
	if in.PHasSub {
		psub = q.Some(q.Hx(in.PSub))
	}
	iu := make([]string, len(in.IUSE))
	for i, t := range in.IUSE {
		iu[i] = q.Pair(q.N(uint64(t.Prefix)), q.Hx(t.Flag))
	}
	pkgT = q.App("C13.MkPkg", verTerm(in.PVer), q.Hx(in.PSlot), psub, q.List(iu), q.HxList(in.USE))
	ps := make([]string, len(in.Parent))
	for i, p := range in.Parent {
		ps[i] = q.Pair(q.Hx(p.Flag), q.Bool(p.On))
	}
	parentT = q.List(ps)
	return
}

// ---- running the implementation ----
type Obs struct {
	Kind                                             string // ok, err, panic, timeout
	Stage                                            int
	Msg                                              string
	DepCV, DepSlot, DepSub, PkgCV, PkgSlot, PkgSub string
	VS, Flags, Filter                                bool
}

const wallLimit = 3 * time.Second

func mkDep(s string, route int) (*depend.DependAtom, error) {
	if route == 1 {
		return depend.NewDependencyAtom(s)
	}
	deps, err := depend.DecodeDependencies([]byte(s))
	if err != nil {
		return nil, err
	}
	if len(deps) != 1 {
		return nil, fmt.Errorf("%d dependencies decoded from one atom", len(deps))
	}
	da, ok := deps[0].(*depend.DependAtom)
	if !ok {
		return nil, fmt.Errorf("not an atom")
	}
	return da, nil
}

func observe(in Input) Obs {
	done := make(chan Obs, 1)
	go func() {
		var o Obs
		defer func() {
			if e := recover(); e != nil {
				done <- Obs{Kind: "panic", Msg: fmt.Sprint(e)}
			}
		}()
		da, err := mkDep(in.DepString(), in.Route)
		if err != nil {
			done <- Obs{Kind: "err", Stage: 0, Msg: err.Error()}
			return
		}
		da2, err := mkDep(in.FlagsOnlyDepString(), 0)
		if err != nil {
			done <- Obs{Kind: "err", Stage: 0, Msg: err.Error()}
			return
		}
		cand, ca, ctx, err := candidateAndContext(in) // r5_vdb.go
		if err != nil {
			done <- Obs{Kind: "err", Stage: 1, Msg: err.Error()}
			return
		}
		o.Kind = "ok"
		o.DepCV, o.DepSlot, o.DepSub = da.ComparisonString(), da.Slot, da.Subslot
		o.PkgCV, o.PkgSlot, o.PkgSub = ca.ComparisonString(), ca.Slot, ca.Subslot
		o.VS = da.VersionAndSlotMatch(cand)
		o.Flags = len(da2.FilterAtoms([]atom.Atom{cand}, ctx)) > 0
		o.Filter = len(da.FilterAtoms([]atom.Atom{cand}, ctx)) > 0
		done <- o
	}()
	select {
	case o := <-done:
		return o
	case <-time.After(wallLimit):
		// the goroutine cannot be killed; it is left spinning until the harness exits
		return Obs{Kind: "timeout"}
	}
}

func obsTerm(o Obs) string {
	switch o.Kind {
	case "timeout":
		return "C13.OTimeout"
	case "panic":
		return "C13.OPanic"
	case "err":
		return q.App("C13.OErr", q.N(uint64(o.Stage)))
	}
	return q.App("C13.OOk", q.Hx(o.DepCV), q.Hx(o.DepSlot), q.Hx(o.DepSub), q.Hx(o.PkgCV), q.Hx(o.PkgSlot),
		q.Hx(o.PkgSub), q.Bool(o.VS), q.Bool(o.Flags), q.Bool(o.Filter))
}

func Run(in Input, classes []string) *common.Case {
	o := observe(in)
	a, p, par := inputTerm(in)
	c := &common.Case{}
	c.Coq = q.App("C13.MkX", q.App("C13.MkCase", a, p, par, obsTerm(o)), entTerm(in.Cand), entTerm(in.Par))
	dep, pkg := in.DepString(), in.PkgString()
	c.Key = dep + "|" + pkg + "|" + in.IuseLine() + "|" + in.UseLine() + "|" + fmt.Sprint(in.Parent)
	if in.Cand != nil || in.Par != nil {
		c.Key += "|vdb:" + in.Cand.describe() + in.Par.describe()
	}
	c.Nontrivial = len(in.Use) > 0 || (in.HasVer && in.AVer.String() != in.PVer.String())
	c.Desc = map[string]interface{}{
		"input": in, "dep": dep, "pkg": pkg, "iuse": in.IuseLine(), "use": in.UseLine(), "obs": o,
	}
	if in.Cand != nil || in.Par != nil {
		c.Desc["cand_vdb"], c.Desc["parent_vdb"] = in.Cand.describe(), in.Par.describe()
	}
	cl := append([]string{}, classes...)
	if in.HasVer {
		cl = append(cl, "op="+opName[in.Op])
	} else {
		cl = append(cl, "op=none")
	}
	cl = append(cl, fmt.Sprintf("usedeps=%d", len(in.Use)), fmt.Sprintf("slot=%d", in.SlotKind))
	if o.Kind == "ok" {
		cl = append(cl, fmt.Sprintf("vs=%v", o.VS), fmt.Sprintf("flags=%v", o.Flags))
	} else {
		cl = append(cl, "obs="+o.Kind)
	}
	c.Classes = cl
	return c
}

func RunJSON(raw json.RawMessage) (*common.Case, error) {
	var in Input
	if err := json.Unmarshal(raw, &in); err != nil {
		return nil, err
	}
	return Run(in, []string{"replay"}), nil
}

func init() {
	common.Register("c13", common.Prop{
		Generate: func(r common.Rand, tier string, n int, emit func(*common.Case)) {
			Generate(rng.New(r.U64()), tier, n, emit)
		},
		Replay: RunJSON,
	})
}
