package c13

import (
	"strconv"
	"strings"

	"lcverif/common"
	"lcverif/rng"
)

var pkgPool = [][2]string{{"dev-lang", "python"}, {"sys-apps", "portage"}, {"media-fonts", "font-adobe-100dpi"},
	{"x11-libs", "gtk+"}, {"dev-libs", "libxml2"}, {"app-arch", "bzip2"}, {"net-misc", "curl"},
	{"kde-frameworks", "kf6-env"}, {"c", "p"}, {"virtual", "package-manager"}, {"dev-util", "layercake"}}

var flagPool = []string{"nls", "ssl", "X", "python_targets_python3_11", "abi_x86_32", "static-libs", "gtk+",
	"qt5", "a", "b", "f", "threads", "foo@bar", "7zip", "test"}

var slotPool = []string{"0", "1", "2", "3", "3.10", "3.9", "7.4", "stable", "5/5.30", "1.2-r1", "0a", "2.4+", "_x", "10", "00"}

func nines(n int) string { return strings.Repeat("9", n) }

// a number without leading zero (or "0"), at most maxDigits digits, small values favoured
func genNum(r *rng.R, maxDigits int) string {
	switch r.Intn(10) {
	case 0, 1, 2, 3:
		return strconv.Itoa(r.Intn(4))
	case 4, 5, 6:
		return strconv.Itoa(r.Intn(40))
	case 7:
		return []string{"9", "99", "999", "9999", "99999", "10", "100", "1000", "10000", "8", "98", "19", "89999"}[r.Intn(13)]
	}
	d := 1 + r.Intn(maxDigits)
	b := make([]byte, d)
	b[0] = byte('1' + r.Intn(9))
	for i := 1; i < d; i++ {
		b[i] = byte('0' + r.Intn(10))
	}
	return string(b)
}

func genSuf(r *rng.R, maxDigits int) Suf {
	s := Suf{Kind: r.Intn(5), HasNum: !r.Chance(1, 4)}
	if s.HasNum {
		s.Num = genNum(r, maxDigits)
	}
	return s
}

// in-domain shape: up to 5-digit numbers, no leading zeros, at most one suffix
func genVer(r *rng.R) Ver {
	var v Ver
	n := 1 + r.Heavy(4)
	for i := 0; i < n; i++ {
		v.Nums = append(v.Nums, genNum(r, 5))
	}
	if r.Chance(1, 6) {
		v.Letter = string(byte('a' + r.Intn(26)))
		if r.Chance(1, 4) {
			v.Letter = "z"
		}
	}
	if r.Chance(1, 3) {
		v.Sufs = []Suf{genSuf(r, 5)}
	}
	if r.Chance(1, 3) {
		v.HasRev, v.Rev = true, genNum(r, 5)
	}
	return v
}

func clone(v Ver) Ver {
	w := v
	w.Nums = append([]string{}, v.Nums...)
	w.Sufs = append([]Suf{}, v.Sufs...)
	return w
}

func bump(r *rng.R, s string) string {
	n, err := strconv.ParseUint(s, 10, 62)
	if err != nil {
		return s + "1"
	}
	switch r.Intn(6) {
	case 0, 1:
		return strconv.FormatUint(n+1, 10)
	case 2:
		if n > 0 {
			return strconv.FormatUint(n-1, 10)
		}
		return "1"
	case 3:
		return s + "0" // times ten: 1 -> 10, crosses widths
	case 4:
		if len(s) > 1 {
			return s[:len(s)-1]
		}
		return strconv.FormatUint(n+2, 10)
	}
	return genNum(r, 5)
}

// one small edit that stays inside the in-domain shape (mostly)
func mutate(r *rng.R, v Ver) Ver {
	w := clone(v)
	switch r.Intn(12) {
	case 0, 1, 2:
		i := r.Intn(len(w.Nums))
		w.Nums[i] = bump(r, w.Nums[i])
	case 3:
		w.Nums = append(w.Nums, []string{"0", "1", "2", "10"}[r.Intn(4)])
	case 4:
		if len(w.Nums) > 1 {
			w.Nums = w.Nums[:len(w.Nums)-1]
		} else {
			w.Nums = append(w.Nums, "0")
		}
	case 5:
		switch {
		case w.Letter == "":
			w.Letter = string(byte('a' + r.Intn(26)))
		case r.Bool():
			w.Letter = ""
		case w.Letter < "z":
			w.Letter = string(w.Letter[0] + 1)
		default:
			w.Letter = "y"
		}
	case 6:
		if len(w.Sufs) == 0 {
			w.Sufs = []Suf{genSuf(r, 5)}
		} else {
			w.Sufs = nil
		}
	case 7:
		if len(w.Sufs) > 0 {
			i := r.Intn(len(w.Sufs))
			if r.Bool() {
				w.Sufs[i].Kind = r.Intn(5)
			} else if w.Sufs[i].HasNum {
				w.Sufs[i].Num = bump(r, w.Sufs[i].Num)
			} else {
				w.Sufs[i].HasNum, w.Sufs[i].Num = true, strconv.Itoa(1+r.Intn(3))
			}
		} else {
			w.Sufs = []Suf{genSuf(r, 5)}
		}
	case 8, 9:
		if !w.HasRev {
			w.HasRev, w.Rev = true, strconv.Itoa(r.Intn(3))
		} else if r.Chance(1, 3) {
			w.HasRev, w.Rev = false, ""
		} else {
			w.Rev = bump(r, w.Rev)
		}
	case 10:
		i := r.Intn(len(w.Nums))
		w.Nums[i] = genNum(r, 5)
	case 11:
		// identical
	}
	return w
}

// an edit that leaves the domain of the normal form: the known deviation classes
func hostile(r *rng.R, v Ver) (Ver, string) {
	w := clone(v)
	switch r.Intn(9) {
	case 0: // component longer than five digits
		i := r.Intn(len(w.Nums))
		w.Nums[i] = []string{"100000", "99999", "20240131", "20231231", "123456789", "1000000", "999999"}[r.Intn(7)]
		return w, "long"
	case 1:
		i := r.Intn(len(w.Nums))
		d := 6 + r.Intn(4)
		b := make([]byte, d)
		b[0] = byte('1' + r.Intn(9))
		for j := 1; j < d; j++ {
			b[j] = byte('0' + r.Intn(10))
		}
		w.Nums[i] = string(b)
		return w, "long"
	case 2: // leading zero
		if len(w.Nums) == 1 {
			w.Nums = append(w.Nums, "1")
		}
		i := 1 + r.Intn(len(w.Nums)-1)
		w.Nums[i] = []string{"0", "00"}[r.Intn(2)] + w.Nums[i]
		if r.Chance(1, 4) {
			w.Nums[0] = "0" + w.Nums[0]
		}
		return w, "lead0"
	case 3: // several suffixes
		w.Sufs = append(w.Sufs, genSuf(r, 5))
		if len(w.Sufs) == 1 || r.Chance(1, 3) {
			w.Sufs = append(w.Sufs, genSuf(r, 5))
		}
		return w, "multisuf"
	case 4: // bare suffix against explicit zero
		k := r.Intn(5)
		w.Sufs = []Suf{{Kind: k, HasNum: r.Bool(), Num: []string{"0", "00", "1"}[r.Intn(3)]}}
		return w, "sufzero"
	case 5: // suffix or revision number of more than five digits
		if r.Bool() {
			w.Sufs = []Suf{{Kind: r.Intn(5), HasNum: true, Num: []string{"20040408", "100000", "999999"}[r.Intn(3)]}}
		} else {
			w.HasRev, w.Rev = true, []string{"100000", "123456", "999999"}[r.Intn(3)]
		}
		return w, "long"
	case 6: // leading zeros where they are harmless: first component, suffix number, revision
		switch r.Intn(3) {
		case 0:
			w.Nums[0] = "0" + w.Nums[0]
		case 1:
			w.Sufs = []Suf{{Kind: r.Intn(5), HasNum: true, Num: "0" + genNum(r, 3)}}
		case 2:
			w.HasRev, w.Rev = true, "0"+genNum(r, 3)
		}
		return w, "zeros-ok"
	case 7: // further components (what "~" must not accept)
		w.Nums = append(w.Nums, genNum(r, 2))
		return w, "continues"
	}
	w.Sufs = []Suf{{Kind: 4, HasNum: true, Num: genNum(r, 2)}}
	return w, "continues"
}

// versions on which MakeNextVer has to carry
func genCarry(r *rng.R) Ver {
	v := genVer(r)
	switch r.Intn(7) {
	case 0:
		v.Nums[len(v.Nums)-1] = nines(5)
		v.Letter = ""
	case 1:
		v.Nums[len(v.Nums)-1] = nines(1 + r.Intn(7))
		v.Letter = ""
	case 2:
		for i := range v.Nums {
			v.Nums[i] = nines(5)
		}
		v.Letter = ""
	case 3:
		v.Letter = "z"
	case 4:
		v.Sufs = []Suf{{Kind: r.Intn(5), HasNum: true, Num: nines(5)}}
	case 5:
		v.Sufs = []Suf{{Kind: r.Intn(5), HasNum: true, Num: genNum(r, 3)}}
		v.HasRev, v.Rev = true, nines(5)
	case 6:
		v.Nums[len(v.Nums)-1] = []string{"20200131", "20191231", "20200229", "21000131", "20200930", "00010131"}[r.Intn(6)]
		v.Letter = ""
	}
	if r.Chance(1, 2) {
		v.Sufs = nil
		v.HasRev = false
	}
	return v
}

func succNum(s string) string {
	n, err := strconv.ParseUint(s, 10, 62)
	if err != nil {
		return s
	}
	return strconv.FormatUint(n+1, 10)
}

// an atom for ~ / =* whose last given component sits just below a carry, and the candidate
// that is the successor at exactly that component (the first version the range must exclude)
func genBoundary(r *rng.R) (Ver, Ver) {
	a := genVer(r)
	a.HasRev = false
	edge := func(maxd int) string {
		switch r.Intn(5) {
		case 0:
			return []string{"8", "9", "18", "19", "98", "99", "199", "899", "9998", "9999", "99998"}[r.Intn(11)]
		case 1:
			return strconv.Itoa(r.Intn(3)*10 + 8 + r.Intn(2))
		}
		return genNum(r, maxd)
	}
	switch r.Intn(4) {
	case 0: // number part only
		a.Letter, a.Sufs = "", nil
		a.Nums[len(a.Nums)-1] = edge(5)
	case 1: // letter
		a.Sufs = nil
		a.Letter = []string{"a", "x", "y", "z", "m"}[r.Intn(5)]
	case 2: // numbered suffix
		a.Sufs = []Suf{{Kind: r.Intn(5), HasNum: true, Num: edge(4)}}
	case 3: // suffix and revision
		a.Sufs = []Suf{{Kind: r.Intn(5), HasNum: true, Num: genNum(r, 3)}}
		a.HasRev, a.Rev = true, edge(4)
	}
	v := clone(a)
	switch {
	case v.HasRev:
		v.Rev = succNum(v.Rev)
	case len(v.Sufs) > 0:
		if r.Chance(1, 4) && v.Sufs[0].Kind < 4 {
			v.Sufs[0].Kind++
		} else {
			v.Sufs[0].Num = succNum(v.Sufs[0].Num)
		}
	case v.Letter != "":
		if v.Letter < "z" {
			v.Letter = string(v.Letter[0] + 1)
		} else {
			v.Nums[len(v.Nums)-1] = succNum(v.Nums[len(v.Nums)-1])
		}
	default:
		v.Nums[len(v.Nums)-1] = succNum(v.Nums[len(v.Nums)-1])
	}
	// half of the time something follows the boundary component
	switch r.Intn(6) {
	case 0:
		v.HasRev, v.Rev = true, genNum(r, 2)
	case 1:
		if len(v.Sufs) == 0 {
			v.Sufs = []Suf{genSuf(r, 3)}
		}
	case 2:
		if v.Letter == "" && len(v.Sufs) == 0 {
			v.Nums = append(v.Nums, genNum(r, 2))
		}
	}
	return a, v
}

func genUse(r *rng.R, in *Input, n int) {
	for i := 0; i < n; i++ {
		f := flagPool[r.Intn(len(flagPool))]
		u := UseDep{Form: r.Intn(6), Flag: f, Def: []int{0, 0, 1, 2}[r.Intn(4)]}
		in.Use = append(in.Use, u)
		switch r.Intn(3) { // candidate: on / off / not in IUSE
		case 0:
			in.IUSE = append(in.IUSE, IuseTok{r.Intn(3), f})
			in.USE = append(in.USE, f)
		case 1:
			in.IUSE = append(in.IUSE, IuseTok{r.Intn(3), f})
		}
		switch r.Intn(3) { // parent: on / off / absent
		case 0:
			in.Parent = append(in.Parent, PFlag{f, true})
		case 1:
			in.Parent = append(in.Parent, PFlag{f, false})
		}
	}
	// unrelated flags, duplicates, USE entries outside IUSE
	for j := r.Heavy(3); j > 0; j-- {
		f := flagPool[r.Intn(len(flagPool))]
		in.IUSE = append(in.IUSE, IuseTok{r.Intn(3), f})
		if r.Bool() {
			in.USE = append(in.USE, f)
		}
	}
	if r.Chance(1, 4) {
		in.USE = append(in.USE, []string{"amd64", "elibc_glibc", "kernel_linux"}[r.Intn(3)])
	}
	// shuffle both lines
	for j := len(in.IUSE) - 1; j > 0; j-- {
		m := r.Intn(j + 1)
		in.IUSE[j], in.IUSE[m] = in.IUSE[m], in.IUSE[j]
	}
	for j := len(in.USE) - 1; j > 0; j-- {
		m := r.Intn(j + 1)
		in.USE[j], in.USE[m] = in.USE[m], in.USE[j]
	}
}

func genSlots(r *rng.R, in *Input, focus bool) {
	pick := func() string { return slotPool[r.Intn(len(slotPool))] }
	splitSub := func(s string) (string, string, bool) {
		if i := strings.IndexByte(s, '/'); i >= 0 {
			return s[:i], s[i+1:], true
		}
		return s, "", false
	}
	in.PSlot, in.PSub, in.PHasSub = splitSub(pick())
	if !in.PHasSub && r.Chance(1, 4) {
		in.PHasSub, in.PSub = true, []string{"1", "2", "5.30", "0", "1.1"}[r.Intn(5)]
	}
	in.PRoute = r.Intn(2)
	if !focus && !r.Chance(1, 4) {
		return
	}
	switch r.Intn(8) {
	case 0:
		in.SlotKind = 1
	case 1:
		in.SlotKind = 2
	default:
		in.SlotKind = 3
		in.SlotEq = r.Chance(1, 3)
		switch r.Intn(6) {
		case 0, 1, 2: // same slot
			in.Slot = in.PSlot
			if r.Chance(1, 2) {
				in.HasSub = true
				if in.PHasSub && r.Chance(2, 3) {
					in.Sub = in.PSub
				} else if !in.PHasSub && r.Chance(1, 2) {
					in.Sub = in.PSlot
				} else {
					in.Sub = []string{"1", "2", "5.30", "0"}[r.Intn(4)]
				}
			}
		case 3: // differs by leading zeros only
			in.Slot = "0" + in.PSlot
			if r.Bool() {
				in.PSlot, in.Slot = in.Slot, in.PSlot
			}
		default:
			in.Slot, in.Sub, in.HasSub = splitSub(pick())
		}
	}
}

func fixAtomVer(r *rng.R, in *Input, allowOOD bool) []string {
	var cl []string
	if !in.HasVer {
		return cl
	}
	if in.Op == 5 && in.AVer.HasRev { // PMS: no revision after ~
		if allowOOD && r.Chance(1, 12) {
			cl = append(cl, "ood-tilde-rev")
		} else {
			in.AVer.HasRev, in.AVer.Rev = false, ""
		}
	}
	if in.Op == 6 && len(in.AVer.Sufs) > 0 && !in.AVer.Sufs[len(in.AVer.Sufs)-1].HasNum {
		if allowOOD && r.Chance(1, 6) {
			cl = append(cl, "ood-glob-bare-suffix")
		} else {
			in.AVer.Sufs[len(in.AVer.Sufs)-1].HasNum = true
			in.AVer.Sufs[len(in.AVer.Sufs)-1].Num = strconv.Itoa(r.Intn(3))
		}
	}
	return cl
}

func genInput(r *rng.R) (Input, []string) {
	var in Input
	var cl []string
	p := pkgPool[r.Intn(len(pkgPool))]
	in.Cat, in.Name = p[0], p[1]
	if r.Chance(1, 8) {
		in.Block = 1 + r.Intn(2)
	}
	in.HasVer = true
	in.Op = r.Intn(7)
	kind := r.Intn(22)
	useFocus, slotFocus := false, false
	switch {
	case kind >= 20: // the first version beyond a range
		cl = append(cl, "boundary")
		in.Op = 5 + r.Intn(2)
		in.AVer, in.PVer = genBoundary(r)
		if in.Op == 5 {
			in.AVer.HasRev, in.AVer.Rev = false, ""
		}
	case kind < 7: // near pair inside the normal form's domain
		cl = append(cl, "near")
		in.AVer = genVer(r)
		in.PVer = in.AVer
		for k := []int{0, 1, 1, 1, 2, 2, 3}[r.Intn(7)]; k > 0; k-- {
			in.PVer = mutate(r, in.PVer)
		}
		if r.Bool() {
			in.AVer, in.PVer = in.PVer, in.AVer
		}
	case kind < 10: // near pair with one hostile edit
		in.AVer = genVer(r)
		var tag string
		in.PVer, tag = hostile(r, in.AVer)
		cl = append(cl, "hostile", tag)
		if r.Chance(1, 3) {
			in.AVer, _ = hostile(r, in.AVer)
		}
		if r.Chance(1, 3) {
			in.PVer = mutate(r, in.PVer)
		}
		if r.Bool() && tag != "continues" {
			in.AVer, in.PVer = in.PVer, in.AVer
		}
		if tag == "continues" && r.Chance(2, 3) {
			in.Op = 5
		}
	case kind < 12: // unrelated versions
		cl = append(cl, "random")
		in.AVer, in.PVer = genVer(r), genVer(r)
	case kind < 15: // range operators that must carry
		cl = append(cl, "carry")
		in.Op = 5 + r.Intn(2)
		in.AVer = genCarry(r)
		in.PVer = clone(in.AVer)
		switch r.Intn(4) {
		case 0:
			in.PVer.Nums = append(in.PVer.Nums, genNum(r, 2))
		case 1:
			in.PVer = mutate(r, in.PVer)
		case 2:
			in.PVer.HasRev, in.PVer.Rev = true, genNum(r, 2)
		}
		// a date-like last component: candidates shortly after it
		if last := in.AVer.Nums[len(in.AVer.Nums)-1]; len(last) == 8 && r.Chance(2, 3) {
			if n, err := strconv.ParseUint(last, 10, 62); err == nil {
				in.PVer = clone(in.AVer)
				in.PVer.Nums[len(in.PVer.Nums)-1] = strconv.FormatUint(n+uint64(1+r.Intn(80)), 10)
			}
		}
	case kind < 18:
		cl = append(cl, "use")
		useFocus = true
		if r.Bool() {
			in.HasVer = false
			in.PVer = genVer(r)
		} else {
			in.PVer = genVer(r)
			in.AVer = in.PVer
			in.Op = []int{1, 2, 3, 6}[r.Intn(4)]
		}
	default:
		cl = append(cl, "slot")
		slotFocus = true
		if r.Bool() {
			in.HasVer = false
			in.PVer = genVer(r)
		} else {
			in.PVer = genVer(r)
			in.AVer = in.PVer
			in.Op = []int{1, 2, 3}[r.Intn(3)]
		}
	}
	cl = append(cl, fixAtomVer(r, &in, true)...)
	genSlots(r, &in, slotFocus)
	if useFocus {
		genUse(r, &in, 1+r.Heavy(3))
	} else if r.Chance(1, 5) {
		genUse(r, &in, 1+r.Intn(2))
	}
	if len(in.Use) == 0 && r.Chance(1, 3) {
		in.Route = 1
	}
	if len(in.Use) > 0 && r.Bool() && pmsOrderAccepted() {
		in.UseOrder = 1
		cl = append(cl, "use-pms-order")
	}
	// the candidate and/or the depending package loaded from a generated VDB entry (r5_vdb.go)
	if len(in.Use) > 0 && r.Chance(2, 5) {
		cl = append(cl, vdbVariant(r, &in)...)
	}
	return in, cl
}

func Generate(r *rng.R, tier string, n int, emit func(*common.Case)) {
	for i := 0; i < n; i++ {
		cr := r.Split()
		sub := cr.U64()
		cr = rng.New(sub)
		in, cl := genInput(cr)
		c := Run(in, cl)
		c.Sub = sub
		emit(c)
	}
}
