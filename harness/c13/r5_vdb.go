package c13

// Candidates and depending packages loaded from a generated /var/db/pkg by the real loader
// (vdb.GetInstalledPackageList -> AvailableVersion.setAtom).  Production code never builds the
// flag set of an installed package by hand: it is whatever setAtom makes of the files IUSE,
// IUSE_EFFECTIVE and USE of the package's VDB directory, and the flags of the depending package
// (installedResolverData.ParentUseFlags) are that package's own loaded flag set.

import (
	"fmt"
	"os"
	"path/filepath"
	"strings"

	q "lcverif/coqfmt"
	"lcverif/rng"

	"potano.layercake/portage/atom"
	"potano.layercake/portage/vdb"
)

// the files of one VDB entry as far as USE flags go
type VdbEnt struct {
	HasEff  bool      `json:"has_eff"` // file IUSE_EFFECTIVE exists
	Eff     []string  `json:"eff"`
	HasIuse bool      `json:"has_iuse"` // file IUSE exists
	Iuse    []IuseTok `json:"iuse"`
	HasUse  bool      `json:"has_use"` // file USE exists
	Use     []string  `json:"use"`
}

func (e *VdbEnt) iuseLine() string {
	parts := make([]string, len(e.Iuse))
	for i, t := range e.Iuse {
		parts[i] = []string{"", "+", "-"}[t.Prefix] + t.Flag
	}
	return strings.Join(parts, " ")
}

func (e *VdbEnt) describe() string {
	if e == nil {
		return "-"
	}
	s := ""
	if e.HasEff {
		s += "IUSE_EFFECTIVE=" + strings.Join(e.Eff, " ") + ";"
	}
	if e.HasIuse {
		s += "IUSE=" + e.iuseLine() + ";"
	}
	if e.HasUse {
		s += "USE=" + strings.Join(e.Use, " ") + ";"
	}
	return "{" + s + "}"
}

func entTerm(e *VdbEnt) string {
	if e == nil {
		return q.None()
	}
	eff, iuse, use := q.None(), q.None(), q.None()
	if e.HasEff {
		eff = q.Some(q.HxList(e.Eff))
	}
	if e.HasIuse {
		iu := make([]string, len(e.Iuse))
		for i, t := range e.Iuse {
			iu[i] = q.Pair(q.N(uint64(t.Prefix)), q.Hx(t.Flag))
		}
		iuse = q.Some(q.List(iu))
	}
	if e.HasUse {
		use = q.Some(q.HxList(e.Use))
	}
	return q.Some(q.App("C13.MkVdb", eff, iuse, use))
}

// ---- writing the VDB and letting the real loader read it ----

func writeEntry(dir, slot string, e *VdbEnt) error {
	if err := os.MkdirAll(dir, 0o755); err != nil {
		return err
	}
	put := func(name, line string) error {
		return os.WriteFile(filepath.Join(dir, name), []byte(line+"\n"), 0o644)
	}
	if err := put("SLOT", slot); err != nil {
		return err
	}
	if e.HasEff {
		if err := put("IUSE_EFFECTIVE", strings.Join(e.Eff, " ")); err != nil {
			return err
		}
	}
	if e.HasIuse {
		if err := put("IUSE", e.iuseLine()); err != nil {
			return err
		}
	}
	if e.HasUse {
		if err := put("USE", strings.Join(e.Use, " ")); err != nil {
			return err
		}
	}
	return nil
}

// the depending package's VDB directory: a package of the pool other than the candidate
func parentDirName(in Input) string {
	for _, p := range pkgPool {
		if p[0] != in.Cat || p[1] != in.Name {
			return p[0] + "/" + p[1] + "-1"
		}
	}
	return "app-misc/depender-1"
}

func tempRoot() (string, error) {
	for _, base := range []string{"/dev/shm", "/var/tmp", ""} {
		if d, err := os.MkdirTemp(base, "lcv-c13-"); err == nil {
			return d, nil
		}
	}
	return "", fmt.Errorf("no temporary directory for the generated VDB")
}

// loadFromVdb writes the entries the input asks for and returns what GetInstalledPackageList made
// of them (nil where the input does not ask for an entry).  harnessErr: the VDB could not be
// written (not an observation of the code under test).
func loadFromVdb(in Input) (cand, par *vdb.AvailableVersion, loadErr, harnessErr error) {
	root, err := tempRoot()
	if err != nil {
		return nil, nil, nil, err
	}
	defer os.RemoveAll(root)
	pkgdb := filepath.Join(root, "var/db/pkg")
	candDir, parDir := "", ""
	if in.Cand != nil {
		slot := in.PSlot
		if in.PHasSub {
			slot += "/" + in.PSub
		}
		candDir = filepath.Join(pkgdb, in.Cat, in.Name+"-"+in.PVer.String())
		if err := writeEntry(candDir, slot, in.Cand); err != nil {
			return nil, nil, nil, err
		}
	}
	if in.Par != nil {
		parDir = filepath.Join(pkgdb, parentDirName(in))
		if err := writeEntry(parDir, "0", in.Par); err != nil {
			return nil, nil, nil, err
		}
	}
	set, err := vdb.GetInstalledPackageList(root)
	if err != nil {
		return nil, nil, err, nil
	}
	for _, sl := range set.Atoms {
		for _, a := range *sl {
			av, ok := a.(*vdb.AvailableVersion)
			if !ok {
				continue
			}
			switch av.Directory {
			case candDir:
				cand = av
			case parDir:
				par = av
			}
		}
	}
	if (in.Cand != nil && cand == nil) || (in.Par != nil && par == nil) {
		return nil, nil, fmt.Errorf("a written VDB entry is missing from the installed set"), nil
	}
	return cand, par, nil, nil
}

// candidateAndContext: the candidate as FilterAtoms gets it, its BaseAtom fields, and the
// contextUse map.  Direct route (as before round 5): the flag set is built with the two calls
// setAtom makes; VDB route: the real loader.
func candidateAndContext(in Input) (a atom.Atom, ca *atom.ConcreteAtom, ctx atom.UseFlagMap, err error) {
	var candAV, parAV *vdb.AvailableVersion
	if in.Cand != nil || in.Par != nil {
		var lerr, herr error
		candAV, parAV, lerr, herr = loadFromVdb(in)
		if herr != nil {
			panic("c13 harness: " + herr.Error())
		}
		if lerr != nil {
			return nil, nil, nil, lerr
		}
	}
	if candAV != nil {
		a, ca = candAV, &candAV.ConcreteAtom
	} else {
		ca, err = atom.NewUnprefixedConcreteAtom(in.PkgString())
		if err != nil {
			return nil, nil, nil, err
		}
		if in.PRoute == 1 {
			sub := ""
			if in.PHasSub {
				sub = in.PSub
			}
			ca.SetSlotAndSubslot(in.PSlot, sub)
		}
		ca.UseFlags = atom.NewUseFlagSetFromIUSE(in.IuseLine())
		ca.UseFlags.SetFlagsFromUSE(in.UseLine())
		a = ca
	}
	if parAV != nil {
		ctx = parAV.GetUseFlagMap() // installedResolverData.ParentUseFlags
	} else {
		ctx = atom.UseFlagMap{}
		for _, p := range in.Parent {
			if _, have := ctx[p.Flag]; !have {
				ctx[p.Flag] = p.On
			}
		}
	}
	return a, ca, ctx, nil
}

// ---- generator ----

var implicitFlags = []string{"amd64", "elibc_glibc", "kernel_linux", "userland_GNU", "abi_x86_64"}

// genEntry: a VDB entry in which each flag of [flags] is declared or not, with any prefix, and
// listed in USE or not, independently: default-on flags switched off, default-off flags switched
// on, USE words that nothing declares, duplicates, IUSE_EFFECTIVE present or absent (then IUSE
// alone says what is declared), IUSE and IUSE_EFFECTIVE disagreeing about prefixes.
func genEntry(r *rng.R, flags []string) *VdbEnt {
	e := &VdbEnt{}
	type st struct {
		name     string
		declared bool
		prefix   int
		on       bool
	}
	var all []st
	seen := map[string]bool{}
	add := func(f string) {
		if seen[f] {
			return
		}
		seen[f] = true
		all = append(all, st{f, !r.Chance(1, 5), r.Intn(3), r.Bool()})
	}
	for _, f := range flags {
		add(f)
	}
	for j := r.Heavy(3); j > 0; j-- {
		add(flagPool[r.Intn(len(flagPool))])
	}
	layout := r.Intn(20)
	switch {
	case layout < 8: // IUSE alone (entries of EAPI 4 and older, or of an older portage)
		e.HasIuse = true
	case layout < 13: // IUSE_EFFECTIVE alone
		e.HasEff = true
	case layout < 18: // both: IUSE_EFFECTIVE counts
		e.HasIuse, e.HasEff = true, true
	default: // neither: nothing is declared
	}
	for _, s := range all {
		if s.declared && e.HasEff && e.HasIuse && r.Chance(1, 5) {
			// declared by IUSE_EFFECTIVE only (an implicit flag as far as the ebuild goes)
			e.Eff = append(e.Eff, s.name)
		} else if s.declared {
			e.Iuse = append(e.Iuse, IuseTok{s.prefix, s.name})
			e.Eff = append(e.Eff, s.name)
			if r.Chance(1, 12) { // the same flag twice, prefixes at odds
				e.Iuse = append(e.Iuse, IuseTok{r.Intn(3), s.name})
			}
		} else if e.HasEff && e.HasIuse && r.Chance(1, 3) {
			// declared by IUSE only although IUSE_EFFECTIVE exists (cannot happen with portage; IUSE_EFFECTIVE decides)
			e.Iuse = append(e.Iuse, IuseTok{s.prefix, s.name})
		}
		if s.on {
			e.Use = append(e.Use, s.name)
		}
	}
	if r.Chance(1, 3) { // implicit flags: in IUSE_EFFECTIVE and USE, never in IUSE
		f := implicitFlags[r.Intn(len(implicitFlags))]
		e.Eff = append(e.Eff, f)
		e.Use = append(e.Use, f)
	}
	shuffleToks := func(l []IuseTok) {
		for j := len(l) - 1; j > 0; j-- {
			m := r.Intn(j + 1)
			l[j], l[m] = l[m], l[j]
		}
	}
	shuffleStr := func(l []string) {
		for j := len(l) - 1; j > 0; j-- {
			m := r.Intn(j + 1)
			l[j], l[m] = l[m], l[j]
		}
	}
	shuffleToks(e.Iuse)
	shuffleStr(e.Eff)
	shuffleStr(e.Use)
	if !e.HasIuse {
		e.Iuse = nil
	}
	if !e.HasEff {
		e.Eff = nil
	}
	e.HasUse = len(e.Use) > 0 || r.Bool()
	return e
}

// vdbVariant turns a generated input with USE dependencies into one whose candidate and/or
// depending package come out of a VDB.  The flags the dependencies name are the ones the entries
// talk about.
func vdbVariant(r *rng.R, in *Input) []string {
	var flags []string
	for _, u := range in.Use {
		flags = append(flags, u.Flag)
	}
	cl := []string{}
	which := r.Intn(4) // 0,1: candidate; 2: depending package; 3: both
	if which != 2 {
		in.Cand = genEntry(r, flags)
		in.IUSE, in.USE = nil, nil
		in.PRoute = 0
		cl = append(cl, "vdb-candidate")
		switch {
		case in.Cand.HasEff:
			cl = append(cl, "vdb-iuse-effective")
		case in.Cand.HasIuse:
			cl = append(cl, "vdb-iuse-only")
		default:
			cl = append(cl, "vdb-no-iuse")
		}
	}
	if which >= 2 {
		in.Par = genEntry(r, flags)
		in.Parent = nil
		cl = append(cl, "vdb-parent")
	}
	return cl
}
