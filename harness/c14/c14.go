// Package c14: package atoms and dependency strings -> atom.RawParseAtom and
// depend.DecodeDependencies (property C14).
package c14

import (
	"encoding/hex"
	"encoding/json"
	"fmt"
	"strings"
	"time"

	"lcverif/common"
	q "lcverif/coqfmt"
	"lcverif/rng"

	"potano.layercake/portage/atom"
	"potano.layercake/portage/depend"
)

type B = common.B

// Input is everything needed to re-run a case.
type Input struct {
	Kind   string `json:"kind"` // "atom" | "dep"
	Text   B      `json:"text_hex"`
	Vnr    bool   `json:"version_needs_relop"`
	AsDep  bool   `json:"as_dependency_atom"`
	AstCoq string `json:"ast_coq"` // Gallina term of the abstract syntax the text renders ("" = none)
	Ast    string `json:"ast"`     // the same, human readable
	Stream string `json:"stream"`
	// Warm: before the observed call the same text goes through the OTHER entry points / switch
	// combinations of the parser in this process (the parser has to be a function of its arguments:
	// no cache, intern table or cursor may carry anything over from an earlier call)
	Warm bool `json:"warm"`
}

func init() {
	common.Register("c14", common.Prop{
		Generate: func(r common.Rand, tier string, n int, emit func(*common.Case)) {
			Generate(rng.New(r.U64()), tier, n, emit)
		},
		Replay: RunJSON,
	})
}

func RunJSON(raw json.RawMessage) (*common.Case, error) {
	var in Input
	if err := json.Unmarshal(raw, &in); err != nil {
		return nil, err
	}
	return Run(in), nil
}

// ---------------------------------------------------------------- running the implementation

type useObs struct {
	Type, Default int
	Flag          string
}

func useTerm(u useObs) string {
	return q.App("MkUse", q.N(uint64(u.Type)), q.N(uint64(u.Default)), q.Hx(u.Flag))
}

func usesOf(deps []atom.UseDependency) ([]useObs, string) {
	out := make([]useObs, len(deps))
	ts := make([]string, len(deps))
	for i, d := range deps {
		out[i] = useObs{d.Type, d.FlagDefault, atom.VerifUseFlagName(d.UseFlag)}
		ts[i] = useTerm(out[i])
	}
	return out, q.List(ts)
}

// withLimit runs f under recover and a wall-clock limit: "ok", "panic: …" or "timeout"
func withLimit(f func()) (status string) {
	done := make(chan string, 1)
	go func() {
		defer func() {
			if e := recover(); e != nil {
				done <- fmt.Sprintf("panic: %v", e)
			}
		}()
		f()
		done <- "ok"
	}()
	select {
	case s := <-done:
		return s
	case <-time.After(5 * time.Second):
		return "timeout"
	}
}

func runAtom(text string, vnr, asdep bool) (term string, desc interface{}, accepted bool) {
	var pa atom.ParsedAtom
	var err error
	st := withLimit(func() { pa, err = atom.RawParseAtom(text, vnr, asdep) })
	switch {
	case st == "timeout":
		return "ADiverge", "timeout", false
	case st != "ok":
		return "APanic", st, false
	case err != nil:
		return "AErr", "error: " + err.Error(), false
	}
	uses, ut := usesOf(pa.UseDependencies)
	term = q.App("AOk", q.App("MkParsed", q.Hx(pa.Atom), q.Hx(pa.Category), q.Hx(pa.Name), q.Hx(pa.BaseVer),
		q.Hx(pa.Suffix), q.Hx(pa.Revision), q.Hx(pa.CompVer), q.Hx(pa.Slot), q.Hx(pa.Subslot), q.Hx(pa.Repo),
		q.N(uint64(pa.VerRelop)), q.N(uint64(pa.SlotRelop)), q.Bool(pa.AnySlot), q.Bool(pa.SameSlot),
		q.Bool(pa.Blocker), q.Bool(pa.HardBlock), ut))
	desc = map[string]interface{}{"Atom": pa.Atom, "Category": pa.Category, "Name": pa.Name, "BaseVer": pa.BaseVer,
		"Suffix": pa.Suffix, "Revision": pa.Revision, "CompVer": pa.CompVer, "Slot": pa.Slot, "Subslot": pa.Subslot,
		"Repo": pa.Repo, "VerRelop": pa.VerRelop, "SlotRelop": pa.SlotRelop, "AnySlot": pa.AnySlot,
		"SameSlot": pa.SameSlot, "Blocker": pa.Blocker, "HardBlock": pa.HardBlock, "Use": uses}
	return term, desc, true
}

func depTerm(d depend.PackageDependency) (string, interface{}, int) {
	if d.DependencyType() == depend.Pkg_dep_atom {
		da := d.(*depend.DependAtom)
		ud := da.VerifUseDependencies()
		deps := make([]atom.UseDependency, len(ud))
		for i, ix := range ud {
			deps[i] = atom.VerifUseDependencyAt(ix)
		}
		uses, ut := usesOf(deps)
		t := q.App("DAtom", q.App("MkLeaf", q.Hx(da.Atom), q.Hx(da.Category), q.Hx(da.Name),
			q.Hx(da.ComparisonString()), q.Hx(da.Slot), q.Hx(da.Subslot), q.Hx(da.Repo), q.Bool(da.Blocker),
			q.Bool(da.HardBlock), ut))
		return t, map[string]interface{}{"atom": da.Atom, "cat": da.Category, "name": da.Name,
			"compver": da.ComparisonString(), "slot": da.Slot, "subslot": da.Subslot, "repo": da.Repo,
			"blocker": da.Blocker, "hardblock": da.HardBlock, "use": uses}, 0
	}
	subs := d.Dependencies()
	ts := make([]string, len(subs))
	ds := make([]interface{}, len(subs))
	depth := 0
	for i, s := range subs {
		var dd int
		ts[i], ds[i], dd = depTerm(s)
		if dd > depth {
			depth = dd
		}
	}
	return q.App("DGroup", q.N(uint64(d.DependencyType())), q.Hx(d.UseFlag()), q.List(ts)),
		map[string]interface{}{"type": d.DependencyType(), "flag": d.UseFlag(), "deps": ds}, depth + 1
}

func runDep(text string) (term string, desc interface{}, accepted bool, depth int) {
	var deps []depend.PackageDependency
	var err error
	var items []string
	var descs []interface{}
	var strs []string
	st := withLimit(func() {
		deps, err = depend.DecodeDependencies([]byte(text))
		if err != nil {
			return
		}
		for _, d := range deps {
			t, ds, dd := depTerm(d)
			if dd > depth {
				depth = dd
			}
			items = append(items, t)
			descs = append(descs, ds)
			strs = append(strs, d.String())
		}
	})
	switch {
	case st == "timeout":
		return "(C14.ODep RDiverge [])", "timeout", false, 0
	case st != "ok":
		return "(C14.ODep RPanic [])", st, false, 0
	case err != nil:
		return "(C14.ODep RErr [])", "error: " + err.Error(), false, 0
	}
	return q.App("C14.ODep", q.App("ROk", q.List(items)), q.HxList(strs)),
		map[string]interface{}{"deps": descs, "strings": strs}, true, depth
}

func Run(in Input) *common.Case {
	text := string(in.Text)
	desc := map[string]interface{}{"input": in, "text": text}
	c := &common.Case{Desc: desc}
	ast := q.None()
	if in.AstCoq != "" {
		ast = q.Some(in.AstCoq)
	}
	classes := []string{in.Kind + ":" + in.Stream}
	switch in.Kind {
	case "atom":
		if in.Warm {
			withLimit(func() {
				atom.RawParseAtom(text, !in.Vnr, in.AsDep)
				atom.RawParseAtom(text, !in.Vnr, !in.AsDep)
				atom.RawParseAtom(text, in.Vnr, !in.AsDep)
				depend.DecodeDependencies([]byte(text))
			})
		}
		t, d, ok := runAtom(text, in.Vnr, in.AsDep)
		desc["obs"] = d
		c.Coq = q.App("C14.CAtom", ast, q.Hx(text), q.Bool(in.Vnr), q.Bool(in.AsDep), q.App("C14.OAtom", t))
		if in.AstCoq != "" {
			c.Nontrivial = optionalParts(text) >= 3
		} else {
			c.Nontrivial = ok || len(text) > 3
		}
		classes = append(classes, "atom:"+resClass(t))
	default:
		if in.Warm {
			withLimit(func() {
				for _, w := range strings.Fields(text) {
					atom.RawParseAtom(w, false, false)
					atom.RawParseAtom(w, true, true)
				}
			})
		}
		t, d, ok, depth := runDep(text)
		desc["obs"] = d
		c.Coq = q.App("C14.CDep", ast, q.Hx(text), t)
		if in.AstCoq != "" {
			c.Nontrivial = depth >= 2
		} else {
			c.Nontrivial = ok || len(strings.Fields(text)) >= 2
		}
		classes = append(classes, "dep:"+resClass(t), fmt.Sprintf("dep:depth=%d", depth))
	}
	c.Key = in.Kind + fmt.Sprint(in.Vnr, in.AsDep) + hex.EncodeToString([]byte(text))
	c.Classes = classes
	return c
}

func resClass(t string) string {
	switch {
	case strings.Contains(t, "Panic"):
		return "panic"
	case strings.Contains(t, "Diverge"):
		return "timeout"
	case strings.Contains(t, "AErr") || strings.Contains(t, "RErr"):
		return "rejected"
	}
	return "accepted"
}

// optional parts of a rendered atom: blocker, operator/version, slot, repository, USE
// dependencies, digits or hyphens inside the name
func optionalParts(text string) int {
	n := 0
	if strings.HasPrefix(text, "!") {
		n++
	}
	if t := strings.TrimLeft(text, "!"); t != "" && strings.IndexByte("<>=~", t[0]) >= 0 {
		n++
	}
	body := text
	if i := strings.IndexByte(body, '['); i >= 0 {
		n++
		body = body[:i]
	}
	if strings.Contains(body, "::") {
		n++
		body = body[:strings.Index(body, "::")]
	}
	if strings.Contains(body, ":") {
		n++
	}
	if strings.Contains(body, "_") || strings.Contains(body, "-r") {
		n++
	}
	return n
}
