package c14

// Generators: abstract syntax of PMS atoms / dependency strings (structured stream) and
// mutations, token soup and byte soup (negative stream).  All randomness comes from the
// rng.R handed in.

import (
	"fmt"
	"strings"

	"lcverif/common"
	q "lcverif/coqfmt"
	"lcverif/rng"
)

// ---------------------------------------------------------------- abstract syntax
type Suf struct {
	Kind int
	Num  string
}
type Ver struct {
	Nums   []string
	Letter byte // 0 = none
	Sufs   []Suf
	Rev    string
	HasRev bool
}
type Slot struct {
	Kind      int // 0 none, 1 ":*", 2 ":=", 3 slot
	Slot, Sub string
	HasSub    bool
	Eq        bool
}
type Use struct {
	Prefix  byte // 0, '!', '-'
	Flag    string
	Default int  // 0, 1 (+), 2 (-)
	Suffix  byte // 0, '=', '?'
}
type Atom struct {
	Block, Op int
	Cat       string
	HasCat    bool
	Name      string
	Ver       *Ver
	Glob      bool
	Slot      Slot
	Repo      string
	HasRepo   bool
	Use       []Use
}
type Dast struct {
	Atom  *Atom
	Kind  int
	Flag  string
	Items []*Dast
}

var sufNames = []string{"alpha", "beta", "pre", "rc", "p"}
var opText = []string{"", "<", "<=", "=", ">=", ">", "~"}

func (v *Ver) main() string {
	s := strings.Join(v.Nums, ".")
	if v.Letter != 0 {
		s += string(v.Letter)
	}
	return s
}
func (v *Ver) String() string {
	s := v.main()
	for _, f := range v.Sufs {
		s += "_" + sufNames[f.Kind] + f.Num
	}
	if v.HasRev {
		s += "-r" + v.Rev
	}
	return s
}
func (s Slot) String() string {
	switch s.Kind {
	case 1:
		return ":*"
	case 2:
		return ":="
	case 3:
		t := ":" + s.Slot
		if s.HasSub {
			t += "/" + s.Sub
		}
		if s.Eq {
			t += "="
		}
		return t
	}
	return ""
}
func (u Use) String() string {
	s := ""
	if u.Prefix != 0 {
		s += string(u.Prefix)
	}
	s += u.Flag
	s += []string{"", "(+)", "(-)"}[u.Default]
	if u.Suffix != 0 {
		s += string(u.Suffix)
	}
	return s
}
func (a *Atom) String() string {
	s := []string{"", "!", "!!"}[a.Block] + opText[a.Op]
	if a.HasCat {
		s += a.Cat + "/"
	}
	s += a.Name
	if a.Ver != nil {
		s += "-" + a.Ver.String()
		if a.Glob {
			s += "*"
		}
	}
	s += a.Slot.String()
	if a.HasRepo {
		s += "::" + a.Repo
	}
	if len(a.Use) > 0 {
		us := make([]string, len(a.Use))
		for i, u := range a.Use {
			us[i] = u.String()
		}
		s += "[" + strings.Join(us, ",") + "]"
	}
	return s
}
func (d *Dast) Tokens() []string {
	if d.Atom != nil {
		return []string{d.Atom.String()}
	}
	var out []string
	switch d.Kind {
	case 2:
		out = append(out, "||")
	case 3:
		out = append(out, "^^")
	case 4:
		out = append(out, "??")
	case 5:
		out = append(out, d.Flag+"?")
	case 6:
		out = append(out, "!"+d.Flag+"?")
	}
	out = append(out, "(")
	for _, it := range d.Items {
		out = append(out, it.Tokens()...)
	}
	return append(out, ")")
}
func (d *Dast) Depth() int {
	if d.Atom != nil {
		return 0
	}
	m := 0
	for _, it := range d.Items {
		if k := it.Depth(); k > m {
			m = k
		}
	}
	return m + 1
}

// ---- Gallina terms of the abstract syntax (coq/Model/PMSGrammar.v)
func optHx(has bool, s string) string {
	if has {
		return q.Some(q.Hx(s))
	}
	return q.None()
}
func (v *Ver) Coq() string {
	letter := q.None()
	if v.Letter != 0 {
		letter = q.Some(q.App("nb", q.N(uint64(v.Letter))))
	}
	sufs := make([]string, len(v.Sufs))
	for i, f := range v.Sufs {
		sufs[i] = q.Pair(q.N(uint64(f.Kind)), q.Hx(f.Num))
	}
	return q.App("MkVer", q.HxList(v.Nums), letter, q.List(sufs), optHx(v.HasRev, v.Rev))
}
func (s Slot) Coq() string {
	switch s.Kind {
	case 1:
		return "SAny"
	case 2:
		return "SSame"
	case 3:
		return q.App("SSlot", q.Hx(s.Slot), optHx(s.HasSub, s.Sub), q.Bool(s.Eq))
	}
	return "SNone"
}
func (a *Atom) Coq() string {
	ver := q.None()
	if a.Ver != nil {
		ver = q.Some(a.Ver.Coq())
	}
	us := make([]string, len(a.Use))
	for i, u := range a.Use {
		us[i] = q.App("MkU", q.N(uint64(u.Prefix)), q.Hx(u.Flag), q.N(uint64(u.Default)), q.N(uint64(u.Suffix)))
	}
	return q.App("MkA", q.N(uint64(a.Block)), q.N(uint64(a.Op)), optHx(a.HasCat, a.Cat), q.Hx(a.Name), ver,
		q.Bool(a.Glob), a.Slot.Coq(), optHx(a.HasRepo, a.Repo), q.List(us))
}
func (d *Dast) Coq() string {
	if d.Atom != nil {
		return q.App("TA", d.Atom.Coq())
	}
	its := make([]string, len(d.Items))
	for i, it := range d.Items {
		its[i] = it.Coq()
	}
	return q.App("TG", q.N(uint64(d.Kind)), q.Hx(d.Flag), q.List(its))
}

// ---------------------------------------------------------------- PMS 3.2 version syntax (for name generation)
func isDigits(s string) bool {
	for i := 0; i < len(s); i++ {
		if s[i] < '0' || s[i] > '9' {
			return false
		}
	}
	return true
}
func isPMSVersion(s string) bool {
	body, rev := s, ""
	hasRev := false
	if i := strings.IndexByte(s, '-'); i >= 0 {
		body, rev, hasRev = s[:i], s[i+1:], true
	}
	if hasRev && (len(rev) < 2 || rev[0] != 'r' || !isDigits(rev[1:])) {
		return false
	}
	parts := strings.Split(body, "_")
	nums := strings.Split(parts[0], ".")
	for i, n := range nums {
		if i == len(nums)-1 && len(n) > 1 && n[len(n)-1] >= 'a' && n[len(n)-1] <= 'z' {
			n = n[:len(n)-1]
		}
		if n == "" || !isDigits(n) {
			return false
		}
	}
	for _, ch := range parts[1:] {
		ok := false
		for _, k := range sufNames {
			if strings.HasPrefix(ch, k) && isDigits(ch[len(k):]) {
				ok = true
			}
		}
		if !ok {
			return false
		}
	}
	return true
}
func validName(n string) bool {
	for i := 0; i < len(n); i++ {
		if n[i] == '-' && isPMSVersion(n[i+1:]) {
			return false
		}
	}
	return true
}

// ---------------------------------------------------------------- structured generators
var nameParts = []string{"lib", "x11", "100dpi", "2", "1a", "r1", "r", "1_px", "3_rc1x", "1_alphax", "font", "adobe",
	"gtk+", "py3", "0", "42", "a", "Z", "_x", "c++", "e2fs", "1x", "2-r", "3d", "utils", "meta", "9base", "1_foo", "rc1",
	"10_p", "v2", "1-r1x", "7_", "2b2", "r0", "1__1"}
var catParts = []string{"dev", "lang", "sys", "apps", "x11", "media", "virtual", "kde", "app", "net", "1", "a.b", "c++", "_q", "2-0"}
var slotNames = []string{"0", "1", "2", "3.8", "5", "5.3", "stable", "0.1_beta", "1.2-r3", "A", "_x", "3+", "2.0-gtk"}
var repoNames = []string{"gentoo", "my-overlay", "x", "local_1", "a-b-c", "G2", "_r", "x-r1"}
var flagNames = []string{"ssl", "gtk", "X", "static-libs", "python_targets_python3_11", "abi_x86_32", "threads", "a",
	"cxx", "nls", "test", "introspection", "qt5", "lua_single_target_lua5-1", "1", "a+", "b_c", "d@e", "0ad"}

func genDigits(r *rng.R) string {
	switch r.Intn(12) {
	case 0:
		return "0"
	case 1:
		return "00" + fmt.Sprint(r.Intn(10))
	case 2:
		return fmt.Sprint(20000101 + r.Intn(9999)*10000/9999)
	case 3:
		return fmt.Sprint(100000 + r.Intn(900000))
	}
	return fmt.Sprint(r.Intn([]int{10, 10, 100, 1000}[r.Intn(4)]))
}

func genName(r *rng.R) string {
	for {
		n := 1 + r.Heavy(3)
		ps := make([]string, n)
		for i := range ps {
			ps[i] = r.Pick(nameParts)
		}
		s := strings.Join(ps, "-")
		if s[0] == '+' || s[0] == '-' {
			continue
		}
		if validName(s) {
			return s
		}
	}
}
func genCat(r *rng.R) string {
	n := 1 + r.Intn(2)
	ps := make([]string, n)
	for i := range ps {
		ps[i] = r.Pick(catParts)
	}
	return strings.Join(ps, "-")
}

func genVer(r *rng.R) *Ver {
	v := &Ver{}
	for n := 1 + r.Heavy(3); n > 0; n-- {
		v.Nums = append(v.Nums, genDigits(r))
	}
	if r.Chance(1, 4) {
		v.Letter = byte('a' + r.Intn(26))
	}
	for n := r.Heavy(2); n > 0; n-- {
		f := Suf{Kind: r.Intn(5)}
		if r.Chance(2, 3) {
			f.Num = genDigits(r)
		}
		v.Sufs = append(v.Sufs, f)
	}
	if r.Chance(1, 3) {
		v.HasRev, v.Rev = true, genDigits(r)
	}
	return v
}

func genUse(r *rng.R) Use {
	u := Use{Flag: r.Pick(flagNames)}
	if r.Chance(1, 10) {
		u.Flag = fmt.Sprintf("f%d", r.Intn(500))
	}
	switch r.Intn(6) {
	case 1:
		u.Suffix = '='
	case 2:
		u.Prefix, u.Suffix = '!', '='
	case 3:
		u.Suffix = '?'
	case 4:
		u.Prefix, u.Suffix = '!', '?'
	case 5:
		u.Prefix = '-'
	}
	if r.Chance(1, 3) {
		u.Default = 1 + r.Intn(2)
	}
	return u
}

// genAtom: a well-formed PMS atom for the given mode
func genAtom(r *rng.R, vnr, asdep bool) *Atom {
	a := &Atom{Name: genName(r)}
	if r.Chance(1, 4) {
		a.Block = 1 + r.Intn(2)
	}
	if r.Chance(9, 10) {
		a.HasCat, a.Cat = true, genCat(r)
	}
	if r.Chance(1, 2) {
		a.Ver = genVer(r)
		a.Op = 1 + r.Intn(6)
		if !vnr && r.Chance(1, 4) {
			a.Op = 0
		}
		if a.Op == 3 && r.Chance(1, 3) {
			a.Glob = true
		}
	}
	switch r.Intn(8) {
	case 0:
		a.Slot.Kind = 1
	case 1:
		a.Slot.Kind = 2
	case 2, 3, 4:
		a.Slot = Slot{Kind: 3, Slot: r.Pick(slotNames), Eq: r.Chance(1, 3)}
		if r.Chance(1, 2) {
			a.Slot.HasSub, a.Slot.Sub = true, r.Pick(slotNames)
		}
	}
	if r.Chance(1, 6) {
		a.HasRepo, a.Repo = true, r.Pick(repoNames)
	}
	if asdep {
		for n := r.Heavy(3); n > 0; n-- {
			a.Use = append(a.Use, genUse(r))
		}
	}
	return a
}

func genDast(r *rng.R, depth int) *Dast {
	if depth <= 0 || r.Chance(1, 3) {
		return &Dast{Atom: genAtom(r, true, true)}
	}
	d := &Dast{Kind: 1 + r.Intn(6)}
	if d.Kind >= 5 {
		d.Flag = r.Pick(flagNames)
	}
	n := r.Heavy(4)
	if r.Chance(1, 2) && depth > 1 {
		n = 1 + r.Intn(2) // chains give depth
	}
	for ; n > 0; n-- {
		d.Items = append(d.Items, genDast(r, depth-1))
	}
	return d
}

var seps = []string{" ", " ", " ", "  ", "\t", "\n", " \n\t ", "\r\n", "\v", "\f", "   "}

func joinWS(r *rng.R, toks []string) string {
	var b strings.Builder
	if r.Chance(1, 4) {
		b.WriteString(r.Pick(seps))
	}
	for i, t := range toks {
		if i > 0 {
			b.WriteString(r.Pick(seps))
		}
		b.WriteString(t)
	}
	if r.Chance(1, 4) {
		b.WriteString(r.Pick(seps))
	}
	return b.String()
}

// ---------------------------------------------------------------- negative generators
var atomSoup = []string{"", "!", "!!", "!!!a/b", "=", "<=", "=>a/b-1", "<a/b", "a/b-1", "=a/b", "a/", "/b", "a//b", "a/b/c",
	"=a/b-1_foo", "a/b-1_foo", "=a/b-1-2", "=a/b-1-r2-3", "=a/b-1-r2-r3", "=a/b-r1", "=a/-1", "=a/b--1", "=a/b-1-",
	"a/b:", "a/b::", "a/b:::x", "a/b:=", "a/b:*", "a/b:0/", "a/b:0/1/2", "a/b:0*", "a/b::-x", "a/b:0::r", "a/b:-x",
	"a/b[]", "a/b[x", "a/b[x]z", "a/b[x,]", "a/b[,x]", "a/b[-x?]", "a/b[!x]", "a/b[x(+)?]", "a/b[x?(+)]", "a/b[x()]",
	"a/b[x(*)]", "a/b[x(+]", "a/b[x(+)(-)]", "a/b[--x]", "a/b[!-x=]", "a/b[x=?]", "a/b[x](", "=a/b-1*", "a/b-1*", "=a/b-1*x",
	"=a/b-1.*", "=a/b-1..2", "=a/b-1.", "=a/b-.1", "=a/b-1a2", "=a/b-1ab", "=a/b-1_", "=a/b-1_p_p", "=a/b-1_p-r", "=a/b-1-r",
	"~a/b-1-r1", "=a/b-1\n", "a/b\x00", "a b", " a/b", "a/b ", "+a/b", "a/+b", "-a/b", "a/-b", ".a/b", "a.c/b", "a/b.c", "_a/_b",
	"=a/b-1_alpha1_beta2-r3:4/5=::repo[x,-y(+)]", "a/b*", "*", "=*/b-1", "a/b-1:2-3", "=a-1/b-2", "=a/b-1-1-1", "a/b+",
	"\xff\xfe", "é/ü", "=a/b-١", "a/b:0/1=[x]", "a/b::repo:0", "a/b[x]::repo", "a/b[x]:0", "=a/b-1\x00", "!=a/b-1", "!~a/b-1",
	"~=a/b-1", "<<a/b-1", "<>a/b-1", ">=<a/b-1", "a/b-1-r1-r1", "a/b-r1", "b-1", "=b-1", "b", "=a/b-1_p1_", "=a/b-00.01a_p01-r01"}

var depToks = []string{"(", ")", "||", "^^", "??", "x?", "!y?", "a/b", "c/d", ">=e/f-1.2:3[g]", "!h/i", "((", "))", "|", "|||",
	"?", "???", "x??", "!?", "!", "a/b)", "(a/b", "a/b(", "a/b[x]c/d", "||(", "x?(", "-x?", "+x?", "_x?", "@?", "x!?", "!!y?",
	"^", "^^^", "|^", "?|", "()", "a/b-1", "=a/b", "j/k[l(+)?]", "m/n:=", "o/p::q", "!!r/s", "x?y?", "[", "]", "a/b[", "!x?"}

var ctrlSeps = []string{"\x00", "\x01", "\x1f", "\x08", "\x0e", "\x1b"}

func mutateBytes(r *rng.R, s string) string {
	b := []byte(s)
	for m := 1 + r.Intn(2); m > 0; m-- {
		pool := "!<>=~/-_+*.:[](),?|^ \t\n\x00\x01rp019azAZ@"
		switch r.Intn(5) {
		case 0: // delete
			if len(b) > 0 {
				i := r.Intn(len(b))
				b = append(b[:i:i], b[i+1:]...)
			}
		case 1: // insert
			i := r.Intn(len(b) + 1)
			c := pool[r.Intn(len(pool))]
			b = append(b[:i:i], append([]byte{c}, b[i:]...)...)
		case 2: // replace
			if len(b) > 0 {
				b[r.Intn(len(b))] = pool[r.Intn(len(pool))]
			}
		case 3: // duplicate a piece
			if len(b) > 0 {
				i := r.Intn(len(b))
				j := i + 1 + r.Intn(len(b)-i)
				b = append(b[:j:j], append(append([]byte{}, b[i:j]...), b[j:]...)...)
			}
		case 4: // truncate
			b = b[:r.Intn(len(b)+1)]
		}
	}
	return string(b)
}

func soup(r *rng.R, n int) string {
	b := make([]byte, n)
	for i := range b {
		if r.Chance(1, 3) {
			b[i] = byte(r.Intn(256))
		} else {
			const pool = "ab/-1.2_r:=*[]()!?|^<>~ ,+"
			b[i] = pool[r.Intn(len(pool))]
		}
	}
	return string(b)
}

// fragments of version syntax in random order: exercises the hand-written matchers of the two
// regular expressions against Go's regexp on near-versions (correspondence)
var verFrags = []string{"1", "0", "23", ".", "a", "z", "_", "alpha", "beta", "pre", "rc", "p", "-r", "-", "r", "*", "4", "_p", "_pre", "x", "A", "+"}
var nameFrags = []string{"a/b", "b", "a/b-c", "x11/lib-2", "c++/d+", "a-1/b", "a/b-1", "a/b_", "a/1", "A/B.", "a/b/c", "/b", "a/"}

func versionSoup(r *rng.R) string {
	var b strings.Builder
	b.WriteString(r.Pick([]string{"=", "=", "", "~", ">=", "<", "!="}))
	b.WriteString(r.Pick(nameFrags))
	b.WriteString("-")
	for n := 1 + r.Heavy(7); n > 0; n-- {
		b.WriteString(r.Pick(verFrags))
	}
	if r.Chance(1, 4) {
		b.WriteString(r.Pick([]string{":0", ":=", "::r", "[x]", ":1/2="}))
	}
	return b.String()
}

func negAtom(r *rng.R) (string, string) {
	switch r.Intn(6) {
	case 5:
		return versionSoup(r), "version-soup"
	case 0:
		return r.Pick(atomSoup), "listed"
	case 1:
		return soup(r, r.Heavy(24)), "soup"
	case 2: // a valid atom followed by one or two bytes that cannot continue it (parsed as a whole string)
		junk := []string{"]", "[", "(", ")", "?", ",", " ", "\x00", "@", "!", "\n", "[]", "[x", "]]", ")(", "\xff", "~", "<"}
		return genAtom(r, r.Bool(), false).String() + r.Pick(junk), "trailing"
	default:
		return mutateBytes(r, genAtom(r, r.Bool(), true).String()), "mutated"
	}
}

// one token of a valid string gets an extra byte glued on (or loses one): under the correct
// tokenizer the string is an error; a tokenizer that is sloppy about token length accepts it
func extendToken(r *rng.R, t string) string {
	glue := []string{"(", ")", "|", "?", "^", "x", "!", "1"}
	switch {
	case len(t) > 1 && r.Chance(1, 4):
		return t[:len(t)-1]
	case r.Bool():
		return t + r.Pick(glue)
	default:
		return r.Pick(glue) + t
	}
}

func negDep(r *rng.R) (string, string) {
	switch r.Intn(8) {
	case 6: // a structural token made longer or shorter
		var toks []string
		for n := 1 + r.Heavy(2); n > 0; n-- {
			toks = append(toks, genDast(r, 1+r.Heavy(2)).Tokens()...)
		}
		var idx []int
		for i, t := range toks {
			if t == "(" || t == ")" || t == "||" || t == "^^" || t == "??" || strings.HasSuffix(t, "?") {
				idx = append(idx, i)
			}
		}
		if len(idx) > 0 {
			i := idx[r.Intn(len(idx))]
			toks[i] = extendToken(r, toks[i])
		}
		return joinWS(r, toks), "token-extension"
	case 7: // a USE conditional directly followed by an atom (known finding 1) inside a valid string
		var toks []string
		for n := r.Heavy(2); n > 0; n-- {
			toks = append(toks, genDast(r, r.Heavy(2)).Tokens()...)
		}
		flag := r.Pick(flagNames) + "?"
		if r.Bool() {
			flag = "!" + flag
		}
		toks = append(toks, flag, genAtom(r, true, true).String())
		for n := r.Heavy(2); n > 0; n-- {
			toks = append(toks, genDast(r, r.Heavy(2)).Tokens()...)
		}
		return joinWS(r, toks), "bare-use-conditional"
	case 0:
		return soup(r, r.Heavy(40)), "soup"
	case 1, 2: // token soup
		n := r.Heavy(8)
		ts := make([]string, n)
		for i := range ts {
			ts[i] = r.Pick(depToks)
		}
		return joinWS(r, ts), "tokens"
	case 3: // valid string with one token dropped, doubled or swapped
		var toks []string
		for n := 1 + r.Heavy(3); n > 0; n-- {
			toks = append(toks, genDast(r, 1+r.Heavy(3)).Tokens()...)
		}
		i := r.Intn(len(toks))
		switch r.Intn(4) {
		case 0:
			toks = append(toks[:i:i], toks[i+1:]...)
		case 1:
			toks = append(toks[:i:i], append([]string{toks[i]}, toks[i:]...)...)
		case 2:
			toks = append(toks[:i:i], append([]string{r.Pick(depToks)}, toks[i:]...)...)
		case 3:
			j := r.Intn(len(toks))
			toks[i], toks[j] = toks[j], toks[i]
		}
		return joinWS(r, toks), "token-mutation"
	case 4: // glued tokens / control bytes as separators
		var toks []string
		for n := 1 + r.Heavy(3); n > 0; n-- {
			toks = append(toks, genDast(r, r.Heavy(2)).Tokens()...)
		}
		var b strings.Builder
		for i, t := range toks {
			if i > 0 {
				switch r.Intn(6) {
				case 0:
				case 1:
					b.WriteString(r.Pick(ctrlSeps))
				default:
					b.WriteString(" ")
				}
			}
			b.WriteString(t)
		}
		return b.String(), "separators"
	default:
		var toks []string
		for n := 1 + r.Heavy(2); n > 0; n-- {
			toks = append(toks, genDast(r, r.Heavy(3)).Tokens()...)
		}
		return mutateBytes(r, joinWS(r, toks)), "mutated"
	}
}

// ---------------------------------------------------------------- the case stream
func Generate(r *rng.R, tier string, n int, emit func(*common.Case)) {
	for i := 0; i < n; i++ {
		cr := r.Split()
		sub := cr.U64()
		cr = rng.New(sub)
		var in Input
		in.Warm = cr.Chance(1, 2)
		switch k := i % 10; {
		case k < 3: // well-formed atoms
			in.Kind, in.Stream = "atom", "grammar"
			in.AsDep = cr.Bool()
			in.Vnr = cr.Bool()
			a := genAtom(cr, in.Vnr, in.AsDep)
			in.Text, in.AstCoq, in.Ast = B(a.String()), a.Coq(), fmt.Sprintf("%+v", *a)
		case k < 5: // other atoms
			in.Kind = "atom"
			in.AsDep = cr.Bool()
			in.Vnr = cr.Bool()
			var t string
			t, in.Stream = negAtom(cr)
			in.Text = B(t)
			if in.Stream == "trailing" {
				in.AsDep = false
			}
			if cr.Chance(1, 5) { // an atom that is well formed for the OTHER switch setting only
				a := genAtom(cr, false, in.AsDep)
				if a.Ver != nil {
					a.Op, a.Glob = 0, false // version without operator: accepted leniently, an error strictly
					in.Vnr = true
				} else if !in.AsDep {
					a2 := genAtom(cr, in.Vnr, true) // USE dependencies where none are allowed
					a = a2
				}
				in.Text, in.Stream = B(a.String()), "crossed"
			}
		case k < 8: // well-formed dependency strings
			in.Kind, in.Stream = "dep", "grammar"
			var items []*Dast
			var toks, terms []string
			for m := cr.Heavy(4); m > 0; m-- {
				d := genDast(cr, 1+cr.Heavy(6))
				items = append(items, d)
				toks = append(toks, d.Tokens()...)
				terms = append(terms, d.Coq())
			}
			in.Text, in.AstCoq = B(joinWS(cr, toks)), q.List(terms)
			in.Ast = strings.Join(toks, " ")
		default: // other dependency strings
			in.Kind = "dep"
			var t string
			t, in.Stream = negDep(cr)
			in.Text = B(t)
		}
		c := Run(in)
		c.Sub = sub
		emit(c)
	}
}
