// Package c17: add-files lines, mod= values, wildcard lists and recipe files run through
// the real stage package / stagemaker binary (property C17).
package c17

import (
	"encoding/hex"
	"encoding/json"
	"fmt"
	"strings"

	"lcverif/common"
	q "lcverif/coqfmt"
	"lcverif/rng"

	"potano.layercake/fs"
	"potano.layercake/stage"
)

type B = common.B

// ---- structured lines (mirrors Model/StageDoc.v) ----
const (
	TLit  = 0
	TEsc  = 1
	TStar = 2
)

type Tok struct {
	K int
	C byte
}

const (
	QBare   = 0
	QSingle = 1
	QDouble = 2
)

type SField struct {
	Sep   string
	Style int
	Toks  []Tok
}

// JSON image of a structured field: tokens travel as (kind, byte) pairs in hex
type sfieldJ struct {
	Sep   B   `json:"sep"`
	Style int `json:"style"`
	Toks  B   `json:"toks"`
}

type Input struct {
	Kind string `json:"kind"` // line | mode | list | recipe | gen
	// line
	Line   B         `json:"line_hex,omitempty"`
	HasS   bool      `json:"structured,omitempty"`
	Fields []sfieldJ `json:"fields,omitempty"`
	Trail  B         `json:"trail,omitempty"`
	// mode
	Mode     B     `json:"mode_hex,omitempty"`
	RefModes []int `json:"referee_modes,omitempty"`
	// list
	List *ListInput `json:"list,omitempty"`
	// recipe
	Recipe *RecipeInput `json:"recipe,omitempty"`
	// generate
	Gen *GenInput `json:"gen,omitempty"`
}

func packToks(ts []Tok) string {
	b := make([]byte, 0, 2*len(ts))
	for _, t := range ts {
		b = append(b, byte(t.K), t.C)
	}
	return string(b)
}
func unpackToks(s string) []Tok {
	out := make([]Tok, 0, len(s)/2)
	for i := 0; i+1 < len(s); i += 2 {
		out = append(out, Tok{int(s[i]), s[i+1]})
	}
	return out
}
func toJ(fs []SField) []sfieldJ {
	out := make([]sfieldJ, len(fs))
	for i, f := range fs {
		out[i] = sfieldJ{B(f.Sep), f.Style, B(packToks(f.Toks))}
	}
	return out
}
func fromJ(fs []sfieldJ) []SField {
	out := make([]SField, len(fs))
	for i, f := range fs {
		out[i] = SField{string(f.Sep), f.Style, unpackToks(string(f.Toks))}
	}
	return out
}

func lit(s string) []Tok {
	out := make([]Tok, len(s))
	for i := 0; i < len(s); i++ {
		out[i] = Tok{TLit, s[i]}
	}
	return out
}

// rendering: second implementation of StageDoc.render_line (Coq compares them in wf)
func needsEscBare(c byte) bool { return c == ' ' || c == '\t' || c == '"' || c == '\'' || c == '\\' }

func renderField(style int, ts []Tok) string {
	var b strings.Builder
	quote := byte(0)
	switch style {
	case QSingle:
		quote = '\''
	case QDouble:
		quote = '"'
	}
	if quote != 0 {
		b.WriteByte(quote)
	}
	for _, t := range ts {
		switch t.K {
		case TEsc:
			b.WriteString(`\*`)
		case TStar:
			b.WriteByte('*')
		default:
			esc := false
			if quote == 0 {
				esc = needsEscBare(t.C)
			} else {
				esc = t.C == quote || t.C == '\\'
			}
			if esc {
				b.WriteByte('\\')
			}
			b.WriteByte(t.C)
		}
	}
	if quote != 0 {
		b.WriteByte(quote)
	}
	return b.String()
}

func RenderLine(fields []SField, trail string) string {
	var b strings.Builder
	for _, f := range fields {
		b.WriteString(f.Sep)
		b.WriteString(renderField(f.Style, f.Toks))
	}
	b.WriteString(trail)
	return b.String()
}

func sfieldTerm(f SField) string {
	return q.App("C17.mkf", q.Hx(f.Sep), q.N(uint64(f.Style)), q.Hx(packToks(f.Toks)))
}

// ---- running the implementation ----
const cursorName = "addfiles"

func entryTerm(e stage.VerifEntry) string {
	return q.App("MkE", q.N(uint64(e.Ltype)), q.Hx(e.Name), q.Hx(e.Source), q.Hx(e.Target),
		q.N(uint64(e.Gid)), q.N(uint64(e.Uid)), q.N(uint64(e.AndMask)), q.N(uint64(e.OrMask)),
		q.N(uint64(e.Major)), q.N(uint64(e.Minor)), q.N(uint64(e.Devtype)),
		q.Bool(e.HasWildcard), q.Bool(e.HasGid), q.Bool(e.HasUid), q.Bool(e.HasDev), q.Bool(e.HasPerm),
		q.Bool(e.SkipIfAbsent))
}

func located(msgs []string, name string, lineno int) bool {
	suffix := fmt.Sprintf(" in %s line %d", name, lineno)
	for _, m := range msgs {
		if !strings.HasSuffix(m, suffix) {
			return false
		}
	}
	return true
}

func runLine(in Input) *common.Case {
	line := string(in.Line)
	desc := map[string]interface{}{"input": in, "line": line}
	c := &common.Case{Desc: desc}
	var obsTerm string
	func() {
		defer func() {
			if e := recover(); e != nil {
				desc["obs"] = fmt.Sprintf("panic: %v", e)
				obsTerm = "(C17.OLine LPanic true)"
			}
		}()
		cur := fs.NewTextInputCursor(cursorName, nil)
		adding, e, ok := stage.VerifParseLine(line, cur)
		msgs := cur.GetMessages()
		loc := located(msgs, cursorName, 0)
		desc["obs"] = map[string]interface{}{"adding": adding, "ok": ok, "entry": e, "messages": msgs, "located": loc}
		obsTerm = q.App("C17.OLine", q.App("LRes", q.Bool(adding), q.Bool(ok), entryTerm(e)), q.Bool(loc))
	}()
	sl := q.None()
	if in.HasS {
		fields := fromJ(in.Fields)
		fts := make([]string, len(fields))
		for i, f := range fields {
			fts[i] = sfieldTerm(f)
		}
		sl = q.Some(q.App("MkSL", q.List(fts), q.Hx(string(in.Trail))))
	}
	c.Coq = q.App("C17.MkCase", q.App("C17.ILine", sl, q.Hx(line)), obsTerm)
	c.Key = "line:" + hex.EncodeToString([]byte(line))
	cl := []string{"line"}
	if in.HasS {
		cl = append(cl, "line-structured")
	} else {
		cl = append(cl, "line-soup")
	}
	if strings.ContainsAny(line, `\'"`) {
		cl = append(cl, "quoting")
		c.Nontrivial = true
	}
	if strings.Contains(line, "=") {
		cl = append(cl, "option")
		c.Nontrivial = true
	}
	if strings.Contains(line, "*") {
		cl = append(cl, "asterisk")
	}
	c.Classes = cl
	return c
}

func Run(in Input) *common.Case {
	switch in.Kind {
	case "line":
		return runLine(in)
	case "mode":
		return runMode(in)
	case "list":
		return runList(in)
	case "recipe":
		return runRecipe(in)
	case "gen":
		return runGen(in)
	}
	panic("c17: unknown input kind " + in.Kind)
}

func RunJSON(raw json.RawMessage) (*common.Case, error) {
	var in Input
	if err := json.Unmarshal(raw, &in); err != nil {
		return nil, err
	}
	defer cleanupShared()
	return Run(in), nil
}

func init() {
	common.Register("c17", common.Prop{
		Generate: func(r common.Rand, tier string, n int, emit func(*common.Case)) {
			Generate(rng.New(r.U64()), tier, n, emit)
		},
		Replay: RunJSON,
	})
}

func Generate(r *rng.R, tier string, n int, emit func(*common.Case)) {
	defer cleanupShared()
	for i := 0; i < n; i++ {
		cr := r.Split()
		sub := cr.U64()
		cr = rng.New(sub)
		var in Input
		switch k := i % 20; {
		case k < 1:
			in = genMatrixLine(cr, i/20)
		case k < 2:
			in = genValueLine(cr, i/20)
		case k < 3:
			in = genSpaceLikeLine(cr, i/20)
		case k < 8:
			in = genStructuredLine(cr)
		case k < 11:
			in = genSoupLine(cr)
		case k < 13:
			in = genMode(cr)
		case k < 16:
			if k == 15 && (i/20)%2 == 0 { // round 6: wildcard src= below the build root (r6_srcwild.go)
				in = genListSrcWild(cr)
			} else {
				in = genList(cr)
			}
		case k < 17:
			if (i/20)%4 == 1 { // round 5: the script named by a recipe line, white space inside the path
				in = genProcViaRecipe(cr)
			} else {
				in = genProc(cr)
			}
		case k < 18:
			in = genGen(cr)
		case k == 19 && (i/20)%3 != 0: // round 5: recipe values with white-space runs inside, sibling paths
			in = genRecipeWS(cr)
		default:
			in = genRecipe(cr)
		}
		c := Run(in)
		c.Sub = sub
		emit(c)
	}
}
