package c17

import (
	"fmt"
	"os"
	"os/exec"
	"path/filepath"
	"strings"

	"lcverif/common"
	q "lcverif/coqfmt"
	"lcverif/rng"
)

// ---- stagemaker -generate: which compression method is used ----
type GenInput struct {
	Switch string   `json:"compress_switch,omitempty"`
	Out    string   `json:"out_name,omitempty"` // base name of the -o file; empty: stdout
	Recipe []string `json:"recipe_compress,omitempty"`
}

var methodWords = []string{"gzip", "bzip2", "xz", "none", "GZIP", "Bzip2", "XZ", "None", "gz", "z", "bz2", "bz", "bzip", "j", "J",
	"no", "0", "bogus", "tar", "Z", "gzip2", "lzma"}
var outNames = []string{"out.tar.gz", "out.tgz", "out.tar.bz2", "out.tbz2", "out.tar.xz", "outtar.xz", "out.tar", "out.bin",
	"out.TAR.GZ", "out.gz", "out.xz", "stage3-amd64.tar.xz", "a.tar.gz.tar", "out"}

func genGen(r *rng.R) Input {
	g := &GenInput{}
	if r.Chance(1, 3) {
		g.Switch = r.Pick(methodWords)
	}
	if r.Chance(3, 4) {
		g.Out = r.Pick(outNames)
	}
	switch r.Intn(5) {
	case 0:
	case 4:
		g.Recipe = []string{r.Pick(methodWords), r.Pick(methodWords)}
	default:
		g.Recipe = []string{r.Pick(methodWords)}
	}
	return Input{Kind: "gen", Gen: g}
}

func magicMethod(b []byte) int {
	switch {
	case len(b) >= 2 && b[0] == 0x1f && b[1] == 0x8b:
		return 1
	case len(b) >= 3 && string(b[:3]) == "BZh":
		return 2
	case len(b) >= 6 && string(b[:6]) == "\xfd7zXZ\x00":
		return 3
	case len(b) >= 262 && string(b[257:262]) == "ustar":
		return 0
	}
	return 9
}

var genSeq int

func runGen(in Input) *common.Case {
	ensureProcRoot()
	g := in.Gen
	desc := map[string]interface{}{"input": in}
	c := &common.Case{Desc: desc}
	genSeq++
	dir := filepath.Join(shared(), fmt.Sprintf("gen%d", genSeq))
	if err := os.Mkdir(dir, 0755); err != nil {
		panic(err)
	}
	defer os.RemoveAll(dir)
	args := []string{"-generate", "-emptydev", "-root", procRoot}
	if g.Switch != "" {
		args = append(args, "-compress", g.Switch)
	}
	outPath := ""
	if g.Out != "" {
		outPath = filepath.Join(dir, g.Out)
		args = append(args, "-o", outPath)
	}
	if len(g.Recipe) > 0 {
		rf := filepath.Join(dir, "recipe")
		var b strings.Builder
		for _, v := range g.Recipe {
			b.WriteString("compress " + v + "\n")
		}
		if err := os.WriteFile(rf, []byte(b.String()), 0644); err != nil {
			panic(err)
		}
		args = append(args, "-recipe", rf)
	}
	cmd := exec.Command(stagemakerBin(), args...)
	cmd.Dir = procRoot
	var so, se strings.Builder
	cmd.Stdout, cmd.Stderr = &so, &se
	err := cmd.Run()
	class := 0
	if e, ok := err.(*exec.ExitError); ok {
		class = 2
		if e.ExitCode() == 1 {
			class = 1
		}
	} else if err != nil {
		panic(err)
	}
	method := 0
	if class == 0 {
		data := []byte(so.String())
		if outPath != "" {
			data, _ = os.ReadFile(outPath)
		}
		method = magicMethod(data)
	}
	desc["obs"] = map[string]interface{}{"exit_class": class, "method": method, "stderr": se.String()}
	c.Coq = q.App("C17.MkCase", q.App("C17.IGen", q.Hx(g.Switch), q.Hx(outPath), q.HxList(g.Recipe)),
		q.App("C17.OGen", q.N(uint64(class)), q.N(uint64(method))))
	c.Key = fmt.Sprintf("gen:%s|%s|%v", g.Switch, g.Out, g.Recipe)
	c.Nontrivial = true
	c.Classes = []string{"generate", fmt.Sprintf("generate-exit%d", class)}
	return c
}
