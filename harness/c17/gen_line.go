package c17

import (
	"fmt"
	"strings"

	"lcverif/rng"
)

var docTypes = []string{"file", "dir", "node", "symlink", "tbd", "omit"}
var badTypes = []string{"File", "link", "files", "hardlink", "obj", "sym", "d", "omit2", "tbd.", "%s"}
var docKeys = []string{"mod", "gid", "uid", "src", "dev", "targ", "absent"}
var badKeys = []string{"mode", "owner", "MOD", "u", "target", "skip", "source", "Uid", "%d"}

var allowed = map[string][]string{
	"file":    {"mod", "uid", "gid", "src", "absent"},
	"dir":     {"mod", "uid", "gid", "src", "absent"},
	"node":    {"mod", "uid", "gid", "dev", "src", "absent"},
	"symlink": {"targ", "absent"},
	"tbd":     {"absent"},
	"omit":    {},
}

var nameAtoms = []string{"etc", "usr", "lib64", "bin", "a", "b", "x", "portage", "make.conf", "a b", "x'y", `q"r`, `b\s`,
	"tab\tx", "ü", "中", "%s", "%d%n", "k=v", "-", "#c", "~", ".", "..", ".hidden", ",", ":", "script (dev).tmpl",
	"70-persistent-net.rules", "'", `"`, `\`, " ", "  sp", "e\\", "?", "[ab]", "{x}", "$$stageroot", "$HOME", "a%20b",
	"voil\xc3\xa0", "\xc3\x85ngstr\xc3\xb6m", "a\xa0b", "x\x85y", "v\vt", "f\ff", "c\rr"}

func genElemToks(r *rng.R) []Tok {
	var ts []Tok
	n := 1 + r.Heavy(2)
	for i := 0; i < n; i++ {
		if r.Chance(1, 14) {
			c := byte(1 + r.Intn(255))
			if c == '*' || c == '/' {
				c = '_'
			}
			ts = append(ts, Tok{TLit, c})
		} else {
			ts = append(ts, lit(r.Pick(nameAtoms))...)
		}
	}
	return ts
}

// insert k wildcard tokens at random positions of an element
func addStars(r *rng.R, ts []Tok, k int, kind int) []Tok {
	for ; k > 0; k-- {
		p := r.Intn(len(ts) + 1)
		ts = append(ts[:p:p], append([]Tok{{kind, 0}}, ts[p:]...)...)
	}
	return ts
}

func genNameToks(r *rng.R) []Tok {
	switch {
	case r.Chance(1, 30):
		return lit("/")
	case r.Chance(1, 40):
		return lit(r.Pick([]string{"a", "x", "."}))
	}
	depth := 1 + r.Heavy(3)
	var ts []Tok
	abs := !r.Chance(1, 15)
	for i := 0; i < depth; i++ {
		if i > 0 || abs {
			ts = append(ts, Tok{TLit, '/'})
		}
		el := genElemToks(r)
		last := i == depth-1
		switch {
		case last && r.Chance(1, 4):
			if r.Chance(1, 5) {
				el = []Tok{}
			}
			el = addStars(r, el, 1+r.Heavy(2), TStar)
		case !last && r.Chance(1, 14):
			el = addStars(r, el, 1, TStar)
		}
		if r.Chance(1, 8) {
			el = addStars(r, el, 1, TEsc)
		}
		if r.Chance(1, 40) { // known finding 1: literal backslash directly before a wildcard
			el = append(el, Tok{TLit, '\\'}, Tok{TStar, 0})
		}
		ts = append(ts, el...)
	}
	if r.Chance(1, 25) {
		ts = append(ts, Tok{TLit, '/'})
	}
	return ts
}

var idBoundary = []string{"0", "1", "6", "1000", "65534", "65535", "65536", "2147483647", "2147483648", "4294967294",
	"4294967295", "4294967296", "99999999999999999999", "007", "0000000000000000000005", "-1", "-5", "-2147483648", "-2147483649"}
var idOdd = []string{"+5", "-0", "-1", "+", "-", "", "abc", "1x", " 5", "5 ", "0x10", "1_0", "1.0", "٣", "1e3"}

func genID(r *rng.R) string {
	switch r.Intn(10) {
	case 0, 1, 2, 3:
		return fmt.Sprint(r.Intn(70000))
	case 4, 5, 6:
		return r.Pick(idBoundary)
	case 7:
		return fmt.Sprint(uint64(r.U64() % (1 << 33)))
	default:
		return r.Pick(idOdd)
	}
}

func genUIDValue(r *rng.R, key string) string {
	if r.Chance(1, 4) || (key == "uid" && r.Chance(1, 5)) {
		switch r.Intn(8) {
		case 0:
			return ":"
		case 1:
			return genID(r) + ":"
		case 2:
			return ":" + genID(r)
		case 3:
			return genID(r) + ":" + genID(r) + ":" + genID(r)
		default:
			return genID(r) + ":" + genID(r)
		}
	}
	return genID(r)
}

var devNums = []string{"0", "1", "4", "8", "13", "64", "150", "254", "255", "256", "300", "4095", "4096", "1048575",
	"1048576", "4294967295", "4294967296", "99999999999999999999", "007"}

func genDevValue(r *rng.R) string {
	t := "c"
	if r.Bool() {
		t = "b"
	}
	if r.Chance(1, 12) {
		t = r.Pick([]string{"x", "", "C", "B", "cb", "u", "p"})
	}
	num := func() string {
		if r.Chance(1, 2) {
			return fmt.Sprint(r.Intn(300))
		}
		if r.Chance(1, 8) {
			return r.Pick([]string{"+1", "-1", "", "x", " 1", "1 ", "0x1"})
		}
		return r.Pick(devNums)
	}
	switch r.Intn(12) {
	case 0:
		return t + num()
	case 1:
		return t + num() + ":" + num() + ":" + num()
	case 2:
		return t + ":" + num()
	case 3:
		return t + num() + ":"
	default:
		return t + num() + ":" + num()
	}
}

func genPathValueToks(r *rng.R) []Tok {
	if r.Chance(1, 20) {
		return nil
	}
	var ts []Tok
	switch r.Intn(6) {
	case 0:
		ts = lit("$$stageroot")
	case 1:
		ts = lit("~user")
	case 2:
		ts = lit("..")
	case 3:
	default:
	}
	depth := 1 + r.Heavy(3)
	for i := 0; i < depth; i++ {
		if i > 0 || len(ts) > 0 || r.Chance(2, 3) {
			ts = append(ts, Tok{TLit, '/'})
		}
		el := genElemToks(r)
		if r.Chance(1, 10) {
			el = addStars(r, el, 1, TStar)
		}
		if r.Chance(1, 10) {
			el = addStars(r, el, 1, TEsc)
		}
		ts = append(ts, el...)
	}
	return ts
}

func genOptionToks(r *rng.R, ty string) []Tok {
	var key string
	al := allowed[ty]
	switch x := r.Intn(20); {
	case x < 14 && len(al) > 0:
		key = r.Pick(al)
	case x < 18:
		key = r.Pick(docKeys)
	case x < 19:
		key = r.Pick(badKeys)
	default: // malformed option field
		switch r.Intn(4) {
		case 0:
			return lit(r.Pick(docKeys))
		case 1:
			return lit("=" + genID(r))
		case 2:
			return append(lit("sr"), append([]Tok{{TEsc, 0}}, lit("c=/x")...)...)
		default:
			return lit(r.Pick([]string{"skip", "0644", "-", "mod", "mod 644"}))
		}
	}
	ts := lit(key + "=")
	switch key {
	case "mod":
		ts = append(ts, lit(genModeString(r))...)
	case "gid", "uid":
		ts = append(ts, lit(genUIDValue(r, key))...)
	case "dev":
		ts = append(ts, lit(genDevValue(r))...)
	case "src", "targ":
		ts = append(ts, genPathValueToks(r)...)
	case "absent":
		if r.Chance(3, 4) {
			ts = append(ts, lit("skip")...)
		} else {
			ts = append(ts, lit(r.Pick([]string{"jump", "Skip", "", "skip ", "skipp", "ski", "yes"}))...)
		}
	default:
		ts = append(ts, lit(r.Pick([]string{"1", "x", "", "0644"}))...)
	}
	return ts
}

func fixStyle(style int, ts []Tok) int {
	if style == QBare && len(ts) > 0 && ts[0].K == TLit && needsEscBare(ts[0].C) {
		return QSingle + int(ts[0].C)%2
	}
	return style
}

func genStyle(r *rng.R, ts []Tok) int {
	s := QBare
	switch r.Intn(4) {
	case 2:
		s = QSingle
	case 3:
		s = QDouble
	}
	return fixStyle(s, ts)
}

func genSep(r *rng.R, first bool) string {
	if first {
		if r.Chance(1, 8) {
			return r.Pick([]string{" ", "\t", "  "})
		}
		return ""
	}
	if r.Chance(1, 6) {
		return r.Pick([]string{"\t", "  ", " \t ", "\t\t", "   "})
	}
	return " "
}

func genFields(r *rng.R) ([]SField, string) {
	ty := r.Pick(docTypes)
	if r.Chance(1, 14) {
		ty = r.Pick(badTypes)
	}
	var fields []SField
	tts := lit(ty)
	tstyle := QBare
	if r.Chance(1, 10) {
		tstyle = QSingle + r.Intn(2)
	}
	fields = append(fields, SField{genSep(r, true), tstyle, tts})
	if r.Chance(1, 40) {
		return fields, ""
	}
	nts := genNameToks(r)
	fields = append(fields, SField{genSep(r, false), genStyle(r, nts), nts})
	nopt := r.Heavy(3)
	if r.Chance(1, 30) {
		nopt += 2
	}
	for i := 0; i < nopt; i++ {
		ots := genOptionToks(r, ty)
		if len(ots) == 0 {
			continue
		}
		fields = append(fields, SField{genSep(r, false), genStyle(r, ots), ots})
	}
	trail := ""
	if r.Chance(1, 8) {
		trail = r.Pick([]string{" ", "\t", "  "})
	}
	return fields, trail
}

// the type x option matrix, one cell per call: a plain name and one option with a valid value
func validValue(r *rng.R, key string) string {
	switch key {
	case "mod":
		if r.Bool() {
			return genSimpleClause(r)
		}
		return r.Pick([]string{"644", "0755", "7", "4755"})
	case "gid", "uid":
		return fmt.Sprint(r.Intn(70000))
	case "src":
		return r.Pick([]string{"/etc/vim/vimrc", "$$stageroot/home/user/portage", "rel/file", "/dev/null"})
	case "dev":
		return fmt.Sprintf("%s%d:%d", r.Pick([]string{"b", "c"}), r.Intn(256), r.Intn(256))
	case "targ":
		return r.Pick([]string{"/var/db/repos/gentoo", "../lib", "busybox"})
	default:
		return "skip"
	}
}

func genMatrixLine(r *rng.R, cell int) Input {
	ty := docTypes[(cell/len(docKeys))%len(docTypes)]
	key := docKeys[cell%len(docKeys)]
	name := lit(r.Pick([]string{"/etc/conf", "/dev/node0", "/usr/lib/x y", "/opt/a"}))
	fields := []SField{{"", QBare, lit(ty)}, {genSep(r, false), genStyle(r, name), name}}
	opt := lit(key + "=" + validValue(r, key))
	fields = append(fields, SField{genSep(r, false), genStyle(r, opt), opt})
	if r.Chance(1, 3) { // a second option the type allows
		if al := allowed[ty]; len(al) > 0 {
			k2 := r.Pick(al)
			if k2 != key && !(k2 == "src" && key == "dev") && !(k2 == "dev" && key == "src") && !(k2 == "uid" && key == "gid") && !(k2 == "gid" && key == "uid") {
				o2 := lit(k2 + "=" + validValue(r, k2))
				fields = append(fields, SField{genSep(r, false), genStyle(r, o2), o2})
			}
		}
	}
	return Input{Kind: "line", Line: B(RenderLine(fields, "")), HasS: true, Fields: toJ(fields)}
}

// boundary values, one per call, in an otherwise valid line of a type that takes the option
var valueMatrix = [][2]string{
	{"uid", "0"}, {"uid", "2147483647"}, {"uid", "2147483648"}, {"uid", "4294967295"}, {"uid", "4294967296"},
	{"uid", "-1"}, {"gid", "-1"}, {"uid", "-2147483648"}, {"gid", "-5"}, {"uid", "+5"}, {"gid", "-0"}, {"uid", ""},
	{"gid", "abc"}, {"uid", "1:2"}, {"uid", "1:-2"}, {"uid", "-1:2"}, {"uid", "2147483648:1"}, {"uid", "1:2147483648"},
	{"gid", "2147483647"}, {"gid", "2147483648"}, {"gid", "99999999999999999999"}, {"uid", "007"}, {"gid", "1:2"},
	{"dev", "c0:0"}, {"dev", "b255:255"}, {"dev", "c256:256"}, {"dev", "c4294967295:4294967295"}, {"dev", "c4294967296:1"},
	{"dev", "c1:4294967296"}, {"dev", "c-1:2"}, {"dev", "c1:-2"}, {"dev", "x1:2"}, {"dev", "c1"}, {"dev", "c1:2:3"},
	{"dev", ""}, {"dev", "c:1"}, {"dev", "b8:"}, {"dev", "c+1:2"},
	{"absent", "skip"}, {"absent", ""}, {"absent", "skipp"}, {"absent", "Skip"}, {"absent", "skip "}, {"absent", "skip-it"},
	{"mod", "7777"}, {"mod", "10000"}, {"mod", ""}, {"mod", "u+x,"}, {"mod", "o+t"}, {"mod", "a+x,o-x"}, {"mod", "u=rw"},
	{"mod", "+"}, {"mod", "8"}, {"targ", ""}, {"src", ""}, {"targ", "a b"}, {"src", "a'b"},
}

func genValueLine(r *rng.R, idx int) Input {
	kv := valueMatrix[idx%len(valueMatrix)]
	ty := "node"
	if kv[0] == "targ" {
		ty = "symlink"
	} else if kv[0] != "dev" && r.Bool() {
		ty = r.Pick([]string{"file", "dir"})
	}
	name := lit(r.Pick([]string{"/etc/conf", "/dev/node0", "/opt/a"}))
	opt := lit(kv[0] + "=" + kv[1])
	fields := []SField{{"", QBare, lit(ty)}, {" ", genStyle(r, name), name}, {genSep(r, false), genStyle(r, opt), opt}}
	return Input{Kind: "line", Line: B(RenderLine(fields, "")), HasS: true, Fields: toJ(fields)}
}

// bytes that Unicode-aware or ctype-style white-space tests call "space" although the documented
// field separators are space and tab only: 0x85 and 0xA0 (inside UTF-8 letters such as "à" = C3 A0,
// "Å" = C3 85, or alone as Latin-1), \v \f \r.  Ordinary name bytes for the tool.  Every string in
// every position and style every quick run: name bare / single / double, src= bare, targ= bare, src= quoted.
var spaceLike = []string{"voil\xc3\xa0.txt", "voil\xc3\xa0", "\xc3\x85ngstr\xc3\xb6m", "a\xa0b", "x\x85", "\x85x", "v\vt",
	"f\ff", "c\rr", "\xa0", "t\vend\f."}

func genSpaceLikeLine(r *rng.R, idx int) Input {
	s := spaceLike[(idx/6)%len(spaceLike)]
	pos := idx % 6
	var fields []SField
	switch pos {
	case 0, 1, 2:
		name := lit("/home/user/" + s)
		fields = []SField{{"", QBare, lit(r.Pick([]string{"file", "dir", "tbd", "omit", "symlink"}))}, {" ", pos, name}}
	case 3:
		fields = []SField{{"", QBare, lit(r.Pick([]string{"file", "dir", "node"}))}, {" ", QBare, lit("/etc/conf")},
			{genSep(r, false), QBare, lit("src=/data/" + s)}}
	case 4:
		fields = []SField{{"", QBare, lit("symlink")}, {" ", QBare, lit("/etc/link")}, {genSep(r, false), QBare, lit("targ=" + s)}}
	default:
		fields = []SField{{"", QBare, lit("file")}, {" ", QBare, lit("/etc/conf")},
			{genSep(r, false), QSingle + r.Intn(2), lit("src=" + s + "/" + s)}}
	}
	if r.Chance(1, 3) && fields[0].Toks[0].C != 'o' { // something after the field in question
		fields = append(fields, SField{" ", QBare, lit("absent=skip")})
	}
	return Input{Kind: "line", Line: B(RenderLine(fields, "")), HasS: true, Fields: toJ(fields)}
}

func genStructuredLine(r *rng.R) Input {
	fields, trail := genFields(r)
	return Input{Kind: "line", Line: B(RenderLine(fields, trail)), HasS: true, Fields: toJ(fields), Trail: B(trail)}
}

var soupTargets = []string{`file /a\`, `file '/a\`, `\`, `file /a b=\`, "file /a \\", `file /a\\\`, `'\`, `file "/a b\`, `file /a mod=u+x\`,
	`file %s%d`, `%!`, `file abc%*d`, `unk%s /a`, `file /a %d=1`, `file /a mod=%s`, `file /a uid=%x`, `file '/a`, `file "/a b`, `''`, `'' ''`,
	`file ''`, `file '' ''`, "file /a\x00b", "\x00", "file /a mod=", "file /a =", "file /a ==", "omit", "omit /a mod=1", "tbd /a mod=0600",
	"tbd /a uid=1", "tbd /a dev=c1:2", "tbd /a targ=x", "tbd /a src=/x", "file /a mod=177777", "file /a mod=o+t", "file /a mod=a+x,o-x",
	"file /a mod=00000000644", "dir /", "file /a*/b", `file /a\*/b`, `file /a\\*`, "node /d dev=c1:2 src=/dev/null", "file /a src=/b src=/c",
	"file /a* src=/b", "file /a src=/b*", "symlink /l targ=/a*", `symlink /l targ=/a\*`, "file /a uid=1 uid=2", "file /a uid=1:2 gid=3"}

func genSoupLine(r *rng.R) Input {
	var line string
	switch r.Intn(7) {
	case 0:
		b := make([]byte, r.Heavy(40))
		for i := range b {
			b[i] = byte(r.Intn(256))
		}
		line = string(b)
	case 1, 2:
		fields, trail := genFields(r)
		line = RenderLine(fields, trail)
		for k := 1 + r.Intn(2); k > 0; k-- {
			switch r.Intn(7) {
			case 0:
				line += `\`
			case 1:
				p := r.Intn(len(line) + 1)
				line = line[:p] + string([]byte{byte(r.Intn(256))}) + line[p:]
			case 2:
				if len(line) > 0 {
					p := r.Intn(len(line))
					line = line[:p] + line[p+1:]
				}
			case 3:
				line += r.Pick([]string{"'", `"`, ` 'x`, ` "`})
			case 4:
				line = line[:r.Intn(len(line)+1)]
			case 5:
				p := r.Intn(len(line) + 1)
				line = line[:p] + r.Pick([]string{`\`, "'", `"`, "*", "=", "%s", " ", "\x00"}) + line[p:]
			case 6:
				line = line + " " + line
			}
		}
	case 3, 4:
		line = r.Pick(soupTargets)
	case 5:
		// alphabet soup biased to the special characters
		al := `\\''""  **==//%abfile mod uid,:+-`
		b := make([]byte, 1+r.Heavy(30))
		for i := range b {
			b[i] = al[r.Intn(len(al))]
		}
		line = string(b)
	default:
		if r.Chance(1, 2) {
			line = "file /" + strings.Repeat("x", 200+r.Intn(3000)) + r.Pick([]string{"", `\`, "'"})
		} else {
			line = "file /a" + strings.Repeat(" uid=1", 20+r.Intn(100))
		}
	}
	return Input{Kind: "line", Line: B(line)}
}
