package c17

import (
	"fmt"
	"os"
	"os/exec"
	"path/filepath"
	"regexp"
	"sort"
	"strings"
	"syscall"

	"lcverif/common"
	q "lcverif/coqfmt"
	"lcverif/rng"

	"potano.layercake/fs"
	"potano.layercake/portage/vdb"
	"potano.layercake/stage"
)

// ---- abstract build root ----
type TEntry struct {
	Path B   `json:"path"`
	Kind int `json:"kind"` // 1 dir, 2 file, 3 symlink (vdb file types)
	Link B   `json:"link,omitempty"`
}

type itemJ struct {
	Comment bool      `json:"comment,omitempty"`
	Raw     B         `json:"raw,omitempty"`
	Fields  []sfieldJ `json:"fields,omitempty"`
	Trail   B         `json:"trail,omitempty"`
}

type ListInput struct {
	Proc     bool     `json:"proc,omitempty"` // through the stagemaker binary on the shared skeleton root
	Tree     []TEntry `json:"tree"`
	Init     []B      `json:"init,omitempty"`
	Pre      []B      `json:"pre,omitempty"`
	HasItems bool     `json:"structured,omitempty"`
	Items    []itemJ  `json:"items,omitempty"`
	Lines    []B      `json:"lines_hex"`
	CRLF     bool     `json:"crlf,omitempty"`
	// round 5: the script is named by a recipe line "addfiles <path with white space inside>" (r5_proc_recipe.go)
	Via *procViaJ `json:"via_recipe,omitempty"`
}

func materialize(root string, tree []TEntry) {
	for _, e := range tree {
		p := filepath.Join(root, string(e.Path))
		var err error
		switch e.Kind {
		case 1:
			err = os.MkdirAll(p, 0755)
		case 2:
			err = os.WriteFile(p, []byte("x"), 0644)
		case 3:
			err = os.Symlink(string(e.Link), p)
		}
		if err != nil {
			panic(err)
		}
	}
}

// walk a real directory into the abstract form (parents first, sorted)
func scanTree(root string) []TEntry {
	var out []TEntry
	var rec func(rel string)
	rec = func(rel string) {
		names, err := fs.Readdirnames(filepath.Join(root, rel))
		if err != nil {
			panic(err)
		}
		sort.Strings(names)
		for _, n := range names {
			p := rel + "/" + n
			var st syscall.Stat_t
			if err := syscall.Lstat(filepath.Join(root, p), &st); err != nil {
				panic(err)
			}
			switch st.Mode & syscall.S_IFMT {
			case syscall.S_IFDIR:
				out = append(out, TEntry{Path: B(p), Kind: 1})
				rec(p)
			case syscall.S_IFLNK:
				l, _ := os.Readlink(filepath.Join(root, p))
				out = append(out, TEntry{Path: B(p), Kind: 3, Link: B(l)})
			default:
				out = append(out, TEntry{Path: B(p), Kind: 2})
			}
		}
	}
	rec("")
	return out
}

var dirNames = []string{"etc", "usr", "opt", "var", "conf.d", "lib64", "a b", "d'q", "x*d", "é", ".cfg", "d\xc3\xa0", "\xc3\x85ngstr\xc3\xb6m"}
var fileNames = []string{"aa", "ab", "abc", "b", "ba", "c.conf", "d.conf", "x*y", "*", "a*", "q'r", `q"r`, "a b", "é", ".hidden",
	"%s", "k=v", "-", "#c", "~", ",", "file", "omit", "  sp", "tab\tx", "z",
	"voil\xc3\xa0", "voil\xc3\xa0.txt", "\xc3\x85", "a\xa0b", "x\x85", "v\vt", "f\ff", "c\rr"}

// names with bytes that a Unicode/ctype white-space test would take for separators (see gen_line.go spaceLike);
// none ends in an ASCII white-space byte (the line reader's TrimSpace would take that off a bare name)
var spaceLikeFiles = []string{"voil\xc3\xa0", "voil\xc3\xa0.txt", "\xc3\x85ngstr\xc3\xb6m", "a\xa0b", "x\x85", "\x85x", "v\vt", "f\ff", "c\rr", "\xa0"}

func genTree(r *rng.R) []TEntry {
	var tree []TEntry
	seen := map[string]bool{}
	var fill func(dir string, depth int)
	fill = func(dir string, depth int) {
		n := 1 + r.Heavy(6)
		for i := 0; i < n; i++ {
			var name string
			isDir := depth < 3 && r.Chance(1, 3)
			if isDir {
				name = r.Pick(dirNames)
			} else {
				name = r.Pick(fileNames)
			}
			p := dir + "/" + name
			if seen[p] {
				continue
			}
			seen[p] = true
			switch {
			case isDir:
				tree = append(tree, TEntry{Path: B(p), Kind: 1})
				if r.Chance(4, 5) {
					fill(p, depth+1)
				}
			case r.Chance(1, 7):
				tree = append(tree, TEntry{Path: B(p), Kind: 3, Link: B(r.Pick([]string{"aa", "nowhere", "b", "../x", "x*y"}))})
			default:
				tree = append(tree, TEntry{Path: B(p), Kind: 2})
			}
		}
	}
	ntop := 1 + r.Intn(3)
	for i := 0; i < ntop; i++ {
		d := "/" + dirNames[r.Intn(4)]
		if seen[d] {
			continue
		}
		seen[d] = true
		tree = append(tree, TEntry{Path: B(d), Kind: 1})
		fill(d, 1)
	}
	return tree
}

// tokens of a literal path (asterisks escaped)
func pathToks(p string) []Tok {
	var ts []Tok
	for i := 0; i < len(p); i++ {
		if p[i] == '*' {
			ts = append(ts, Tok{TEsc, 0})
		} else {
			ts = append(ts, Tok{TLit, p[i]})
		}
	}
	return ts
}

// a pattern for the base name: keeps a prefix and/or suffix of it
func patternToks(r *rng.R, base string) []Tok {
	switch r.Intn(6) {
	case 0:
		return []Tok{{TStar, 0}}
	case 1:
		k := r.Intn(len(base) + 1)
		return append(pathToks(base[:k]), Tok{TStar, 0})
	case 2:
		k := r.Intn(len(base) + 1)
		return append([]Tok{{TStar, 0}}, pathToks(base[k:])...)
	case 3:
		k := r.Intn(len(base) + 1)
		j := k + r.Intn(len(base)-k+1)
		return append(append(pathToks(base[:k]), Tok{TStar, 0}), pathToks(base[j:])...)
	case 4:
		k := r.Intn(len(base) + 1)
		ts := append(pathToks(base[:k]), Tok{TStar, 0}, Tok{TStar, 0})
		return append(ts, pathToks(base[k:])...)
	default:
		ts := []Tok{{TStar, 0}}
		if len(base) > 0 {
			k := r.Intn(len(base))
			ts = append(ts, pathToks(base[k:k+1])...)
			ts = append(ts, Tok{TStar, 0})
		}
		return ts
	}
}

func kindType(kind int) string {
	switch kind {
	case 1:
		return "dir"
	case 2:
		return "file"
	default:
		return "symlink"
	}
}

func genListLine(r *rng.R, tree []TEntry, known *[]string) []SField {
	pickEntry := func() TEntry { return tree[r.Intn(len(tree))] }
	dirs := []string{"/"}
	for _, e := range tree {
		if e.Kind == 1 {
			dirs = append(dirs, string(e.Path))
		}
	}
	mk := func(ty string, name []Tok, opts ...string) []SField {
		fsl := []SField{{genSep(r, true), QBare, lit(ty)}, {genSep(r, false), genStyle(r, name), name}}
		for _, o := range opts {
			ts := lit(o)
			fsl = append(fsl, SField{genSep(r, false), genStyle(r, ts), ts})
		}
		return fsl
	}
	extra := func(ty string) []string {
		var o []string
		if r.Chance(1, 4) && (ty == "file" || ty == "dir" || ty == "node") {
			o = append(o, "mod="+genSimpleClause(r))
		}
		if r.Chance(1, 6) && (ty == "file" || ty == "dir" || ty == "node") {
			o = append(o, fmt.Sprintf("uid=%d", r.Intn(2000)))
		}
		if r.Chance(1, 5) && ty != "omit" {
			o = append(o, "absent=skip")
		}
		return o
	}
	wildName := func() []Tok {
		d := dirs[r.Intn(len(dirs))]
		var kids []string
		for _, e := range tree {
			p := string(e.Path)
			if filepath.Dir(p) == d {
				kids = append(kids, filepath.Base(p))
			}
		}
		base := "x"
		if len(kids) > 0 {
			base = kids[r.Intn(len(kids))]
		}
		if r.Chance(1, 12) {
			d = d + "/nonexistent"
		}
		pre := d
		if pre == "/" {
			pre = ""
		}
		if r.Chance(1, 12) {
			pre = strings.Replace(pre, "/", "//", 1)
		}
		return append(pathToks(pre+"/"), patternToks(r, base)...)
	}
	absentName := func() []Tok {
		d := dirs[r.Intn(len(dirs))]
		if d == "/" {
			d = ""
		}
		return pathToks(d + "/" + r.Pick([]string{"new", "nofile", "x*z", "n n", "aa.new"}))
	}
	switch x := r.Intn(20); {
	case x < 5: // add an existing entry with the matching type
		e := pickEntry()
		ty := kindType(e.Kind)
		if r.Chance(1, 4) {
			ty = "tbd"
		}
		*known = append(*known, string(e.Path))
		return mk(ty, pathToks(string(e.Path)), extra(ty)...)
	case x < 6: // wrong type for what is there
		e := pickEntry()
		ty := r.Pick([]string{"file", "dir", "symlink", "node"})
		return mk(ty, pathToks(string(e.Path)), extra(ty)...)
	case x < 8: // absent
		ty := r.Pick([]string{"file", "dir", "dir", "symlink", "tbd", "node"})
		an := absentName()
		if ty == "dir" { // becomes a member although it is not on disk
			var b []byte
			for _, t := range an {
				if t.K == TEsc {
					b = append(b, '*')
				} else {
					b = append(b, t.C)
				}
			}
			*known = append(*known, string(b))
		}
		return mk(ty, an, extra(ty)...)
	case x < 9: // symlink / node that need no source
		if r.Bool() {
			return mk("symlink", absentName(), "targ="+r.Pick([]string{"/var/db/repos/gentoo", "../x", "t t"}))
		}
		return mk("node", absentName(), fmt.Sprintf("dev=%s%d:%d", r.Pick([]string{"b", "c"}), r.Intn(255), r.Intn(255)))
	case x < 13: // wildcard add
		ty := r.Pick([]string{"file", "dir", "dir", "tbd", "symlink", "node"})
		return mk(ty, wildName(), extra(ty)...)
	case x < 16: // wildcard omit: members are matched, on disk or not
		if len(*known) > 0 && r.Chance(1, 3) {
			k := (*known)[r.Intn(len(*known))]
			d, base := filepath.Dir(k), filepath.Base(k)
			if d == "/" {
				d = ""
			}
			if r.Chance(1, 6) { // a star never crosses a slash: the parent's pattern must not take the children
				return mk("omit", append(pathToks(filepath.Dir(d)+"/"), Tok{TStar, 0}))
			}
			return mk("omit", append(pathToks(d+"/"), patternToks(r, base)...))
		}
		return mk("omit", wildName())
	case x < 18: // plain omit of something probably present
		if len(*known) > 0 && r.Chance(3, 4) {
			return mk("omit", pathToks((*known)[r.Intn(len(*known))]))
		}
		return mk("omit", pathToks(string(pickEntry().Path)))
	case x < 19: // a line the manual refuses
		switch r.Intn(4) {
		case 0:
			return mk("link", pathToks(string(pickEntry().Path)))
		case 1:
			return mk("omit", pathToks(string(pickEntry().Path)), "absent=skip")
		case 2:
			return mk("tbd", pathToks(string(pickEntry().Path)), "mod=0644")
		default:
			return mk("file", pathToks(strings.TrimPrefix(string(pickEntry().Path), "/")))
		}
	default: // anything
		fl, _ := genFields(r)
		return fl
	}
}

var commentLines = []string{"", "# comment", "// other comment", "   ", "\t# indented", "#", "//", " //x", " ", " # after an em space"}

func genListScript(r *rng.R, tree []TEntry, known *[]string) ([]itemJ, []string) {
	n := 1 + r.Heavy(5)
	var items []itemJ
	var lines []string
	for i := 0; i < n; i++ {
		if r.Chance(1, 8) {
			c := r.Pick(commentLines)
			items = append(items, itemJ{Comment: true, Raw: B(c)})
			lines = append(lines, c)
			continue
		}
		fl := genListLine(r, tree, known)
		trail := ""
		if r.Chance(1, 10) {
			trail = r.Pick([]string{" ", "\t"})
		}
		items = append(items, itemJ{Fields: toJ(fl), Trail: B(trail)})
		lines = append(lines, RenderLine(fl, trail))
	}
	return items, lines
}

func genList(r *rng.R) Input {
	tree := genTree(r)
	var known []string
	var init []B
	for _, e := range tree {
		if r.Chance(1, 3) {
			init = append(init, e.Path)
			known = append(known, string(e.Path))
		}
	}
	if r.Chance(1, 4) {
		init = append(init, B("/etc/not-there"))
	}
	items, lines := genListScript(r, tree, &known)
	if r.Chance(1, 2) { // a name with a space look-alike byte: in the tree, mostly in the list, added / omitted plainly and by wildcard
		d := string(tree[0].Path)
		name := r.Pick(spaceLikeFiles)
		p := d + "/" + name
		dup := false
		for _, e := range tree {
			if string(e.Path) == p {
				dup = true
			}
		}
		if !dup {
			tree = append(tree, TEntry{Path: B(p), Kind: 2})
		}
		if r.Chance(2, 3) {
			init = append(init, B(p))
		}
		var fl []SField
		style := r.Intn(3)
		switch r.Intn(5) {
		case 0:
			fl = []SField{{"", QBare, lit("omit")}, {" ", style, pathToks(p)}}
		case 1:
			fl = []SField{{"", QBare, lit(r.Pick([]string{"file", "tbd"}))}, {" ", style, pathToks(p)}}
		case 2:
			k := r.Intn(len(name) + 1)
			fl = []SField{{"", QBare, lit("omit")}, {" ", style, append(pathToks(d+"/"+name[:k]), Tok{TStar, 0})}}
		case 3:
			k := r.Intn(len(name) + 1)
			fl = []SField{{"", QBare, lit("file")}, {" ", style, append(append(pathToks(d+"/"), Tok{TStar, 0}), pathToks(name[k:])...)}}
		default:
			fl = []SField{{"", QBare, lit("file")}, {" ", style, pathToks(p)}, {" ", QBare, lit("absent=skip")}}
		}
		at := r.Intn(len(lines) + 1)
		it := itemJ{Fields: toJ(fl)}
		items = append(items[:at:at], append([]itemJ{it}, items[at:]...)...)
		lines = append(lines[:at:at], append([]string{RenderLine(fl, "")}, lines[at:]...)...)
	}
	if r.Chance(1, 3) { // a member that is not on disk, omitted by wildcard: omit matches members, not files
		d := string(tree[0].Path)
		nm := r.Pick([]string{"newdir", "new.d", "n n", "zz*z"})
		add := []SField{{"", QBare, lit("dir")}, {" ", r.Intn(3), pathToks(d + "/" + nm)}}
		var pat []Tok
		switch r.Intn(3) {
		case 0:
			pat = append(pathToks(d+"/"+nm[:1]), Tok{TStar, 0})
		case 1:
			pat = append(append(pathToks(d+"/"), Tok{TStar, 0}), pathToks(nm[len(nm)-1:])...)
		default:
			pat = append(pathToks(d+"/"), Tok{TStar, 0})
		}
		om := []SField{{"", QBare, lit("omit")}, {" ", r.Intn(3), pat}}
		items = append(items, itemJ{Fields: toJ(add)}, itemJ{Fields: toJ(om)})
		lines = append(lines, RenderLine(add, ""), RenderLine(om, ""))
	}
	li := &ListInput{Tree: tree, Init: init, HasItems: true, Items: items, Lines: common.Bs(lines), CRLF: r.Chance(1, 10)}
	if r.Chance(1, 8) { // raw script: structured lines damaged
		li.HasItems = false
		li.Items = nil
		k := r.Intn(len(lines))
		lines[k] = r.Pick([]string{lines[k] + `\`, lines[k] + " '", "file %s", "omit", strings.ToUpper(lines[k])})
		li.Lines = common.Bs(lines)
	}
	return Input{Kind: "list", List: li}
}

// ---- terms ----
func treeTerm(tree []TEntry) string {
	ts := make([]string, len(tree))
	for i, e := range tree {
		ts[i] = q.App("MkT", q.Hx(string(e.Path)), q.N(uint64(e.Kind)), q.Hx(string(e.Link)))
	}
	return q.List(ts)
}

func itemsTerm(items []itemJ) string {
	ts := make([]string, len(items))
	for i, it := range items {
		if it.Comment {
			ts[i] = q.App("SComment", q.Hx(string(it.Raw)))
			continue
		}
		fields := fromJ(it.Fields)
		fts := make([]string, len(fields))
		for j, f := range fields {
			fts[j] = sfieldTerm(f)
		}
		ts[i] = q.App("SLine", q.App("MkSL", q.List(fts), q.Hx(string(it.Trail))))
	}
	return q.List(ts)
}

var lineSuffix = regexp.MustCompile(` line [0-9]+$`)

func locatedIn(msgs []string, name string) bool {
	for _, m := range msgs {
		loc := lineSuffix.FindStringIndex(m)
		if loc == nil || !strings.HasSuffix(m[:loc[0]], " in "+name) {
			return false
		}
	}
	return true
}

func scriptText(lines []string, crlf bool) string {
	if len(lines) == 0 {
		return ""
	}
	sep := "\n"
	if crlf {
		sep = "\r\n"
	}
	return strings.Join(lines, sep) + sep
}

var listSeq int

func runList(in Input) *common.Case {
	li := in.List
	if li.Proc {
		return runProc(in)
	}
	lines := common.Ss(li.Lines)
	desc := map[string]interface{}{"input": in, "lines": lines}
	c := &common.Case{Desc: desc}
	listSeq++
	root := filepath.Join(shared(), fmt.Sprintf("list%d", listSeq))
	if err := os.Mkdir(root, 0755); err != nil {
		panic(err)
	}
	defer os.RemoveAll(root)
	materialize(root, li.Tree)

	var obsTerm string
	func() {
		defer func() {
			if e := recover(); e != nil {
				desc["obs"] = fmt.Sprintf("panic: %v", e)
				obsTerm = "(C17.OList LsPanic true)"
			}
		}()
		infos := make([]vdb.FileInfo, len(li.Init))
		for i, n := range li.Init {
			infos[i] = vdb.FileInfo{Name: string(n)}
		}
		fl, err := stage.GenerateFileList(infos, root)
		if err != nil {
			desc["obs"] = map[string]interface{}{"GenerateFileList": err.Error()}
			obsTerm = "(C17.OList LsErr true)"
			return
		}
		cur := fs.NewTextInputCursor(cursorName, strings.NewReader(scriptText(lines, li.CRLF)))
		err = fl.ReadUserFileList(cur)
		msgs := cur.GetMessages()
		loc := locatedIn(msgs, cursorName)
		if err != nil {
			desc["obs"] = map[string]interface{}{"error": msgs, "located": loc}
			obsTerm = q.App("C17.OList", "LsErr", q.Bool(loc))
			return
		}
		fl.Finalize()
		es := fl.VerifEntries()
		ets := make([]string, len(es))
		edesc := make([]string, len(es))
		for i, e := range es {
			ets[i] = q.App("MkL", q.Hx(e.Name), q.N(uint64(e.Ltype)), q.Hx(e.Target))
			edesc[i] = fmt.Sprintf("%q type=%d target=%q", e.Name, e.Ltype, e.Target)
		}
		desc["obs"] = map[string]interface{}{"entries": edesc}
		obsTerm = q.App("C17.OList", q.App("LsOk", q.List(ets)), "true")
	}()
	items := q.None()
	if li.HasItems {
		items = q.Some(itemsTerm(li.Items))
	}
	c.Coq = q.App("C17.MkCase", q.App("C17.IList", treeTerm(li.Tree), q.HxList(common.Ss(li.Init)), items, q.HxList(lines)), obsTerm)
	c.Key = "list:" + fmt.Sprint(li.Tree) + strings.Join(lines, "\n")
	c.Nontrivial = true
	c.Classes = []string{"list"}
	text := strings.Join(lines, "\n")
	if strings.Contains(text, "*") {
		c.Classes = append(c.Classes, "list-wildcard")
	}
	if strings.Contains(text, "omit") {
		c.Classes = append(c.Classes, "list-omit")
	}
	if !li.HasItems {
		c.Classes = append(c.Classes, "list-raw")
	}
	return c
}

// ---- process level: stagemaker -list stage -files -emptydev -root R -addfiles F ----
var skeletonFiles = []string{"etc/csh.env", "etc/env.d/00basic", "etc/fstab", "etc/group", "etc/gshadow", "etc/ld.so.cache",
	"etc/ld.so.conf", "etc/ld.so.conf.d/05gcc.conf", "etc/localtime", "etc/passwd", "etc/profile.env", "etc/shadow",
	"etc/udev/hwdb.bin", "etc/xml/catalog", "usr/bin/c89", "usr/bin/c99", "usr/lib64/gconv/gconv-modules.cache",
	"usr/local/x", "usr/share/binutils-data/x", "usr/share/gcc-data/x", "usr/share/info/dir", "var/cache/x",
	"var/lib/gentoo/x", "var/lib/portage/world",
	// extras for the user lists
	"opt/app/aa", "opt/app/ab", "opt/app/b", "opt/app/x*y", "opt/app/sub/c", "opt/app/sub/d d", "etc/portage/package.use",
	"opt/app/voil\xc3\xa0.txt", "opt/app/a\xa0b", "opt/app/v\vt"}

var procRoot string
var procTree []TEntry
var procPre []string

func stagemakerBin() string {
	if d := os.Getenv("LCV_RUN"); d != "" {
		return filepath.Join(d, "stagemaker")
	}
	return "stagemaker"
}

func runBinary(dir string, args ...string) (class int, stdout, stderr string) {
	cmd := exec.Command(stagemakerBin(), args...)
	cmd.Dir = dir
	var so, se strings.Builder
	cmd.Stdout, cmd.Stderr = &so, &se
	err := cmd.Run()
	switch e := err.(type) {
	case nil:
		class = 0
	case *exec.ExitError:
		if e.ExitCode() == 1 {
			class = 1
		} else {
			class = 2
		}
	default:
		panic(err)
	}
	return class, so.String(), se.String()
}

func ensureProcRoot() {
	if procRoot != "" {
		return
	}
	root := filepath.Join(shared(), "stageroot")
	for _, d := range []string{"etc/portage/make.profile", "var/db/pkg"} {
		if err := os.MkdirAll(filepath.Join(root, d), 0755); err != nil {
			panic(err)
		}
	}
	for _, f := range skeletonFiles {
		p := filepath.Join(root, f)
		if err := os.MkdirAll(filepath.Dir(p), 0755); err != nil {
			panic(err)
		}
		if err := os.WriteFile(p, []byte("x\n"), 0644); err != nil {
			panic(err)
		}
	}
	if err := os.Symlink("/run", filepath.Join(root, "var/run")); err != nil {
		panic(err)
	}
	if err := os.Symlink("aa", filepath.Join(root, "opt/app/lnk")); err != nil {
		panic(err)
	}
	class, out, errs := runBinary(root, "-list", "stage", "-files", "-emptydev", "-root", root)
	if class != 0 {
		panic("c17: baseline stagemaker run failed: " + errs)
	}
	procRoot = root
	procTree = scanTree(root)
	procPre = strings.Split(strings.TrimSuffix(out, "\n"), "\n")
}

func genProc(r *rng.R) Input {
	ensureProcRoot()
	var known []string
	known = append(known, procPre...)
	var lines []string
	n := 1 + r.Heavy(4)
	for i := 0; i < n; i++ {
		switch r.Intn(8) {
		case 0:
			lines = append(lines, r.Pick(commentLines))
		case 1:
			lines = append(lines, r.Pick([]string{`file /opt/app/aa\`, "file %s%d /x", "unk%s /opt/app/aa", "typ% /opt/app/aa", "% /x", `file '/opt/app/aa`,
				"file /opt/app/aa mod=%d", "file opt/app/%s", "omit /opt/nonexistent", "file /opt/app/aa uid=99999999999"}))
		default:
			lines = append(lines, RenderLine(genListLine(r, procTree, &known), ""))
		}
	}
	return Input{Kind: "list", List: &ListInput{Proc: true, Tree: procTree, Pre: common.Bs(procPre), Lines: common.Bs(lines), CRLF: r.Chance(1, 10)}}
}

func runProc(in Input) *common.Case {
	ensureProcRoot()
	li := in.List
	if li.Via != nil {
		return runProcVia(in)
	}
	lines := common.Ss(li.Lines)
	desc := map[string]interface{}{"input": in, "lines": lines}
	c := &common.Case{Desc: desc}
	listSeq++
	script := filepath.Join(shared(), fmt.Sprintf("addfiles%d", listSeq))
	if err := os.WriteFile(script, []byte(scriptText(lines, li.CRLF)), 0644); err != nil {
		panic(err)
	}
	defer os.Remove(script)
	class, out, errs := runBinary(procRoot, "-list", "stage", "-files", "-emptydev", "-root", procRoot, "-addfiles", script)
	var names []string
	if class == 0 && out != "" {
		names = strings.Split(strings.TrimSuffix(out, "\n"), "\n")
	}
	var msgs []string
	if errs != "" {
		msgs = strings.Split(strings.TrimSuffix(errs, "\n"), "\n")
	}
	loc := locatedIn(msgs, script)
	desc["obs"] = map[string]interface{}{"exit_class": class, "stderr": msgs, "located": loc, "names": len(names)}
	c.Coq = q.App("C17.MkCase", q.App("C17.IProc", treeTerm(procTree), q.HxList(procPre), q.HxList(lines)),
		q.App("C17.OProc", q.N(uint64(class)), q.Bool(loc), q.HxList(names)))
	c.Key = "proc:" + strings.Join(lines, "\n")
	c.Nontrivial = true
	c.Classes = []string{"proc-addfiles", fmt.Sprintf("proc-exit%d", class)}
	return c
}
