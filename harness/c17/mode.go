package c17

import (
	"fmt"
	"os"
	"os/exec"
	"path/filepath"
	"strings"
	"syscall"

	"lcverif/common"
	q "lcverif/coqfmt"
	"lcverif/rng"

	"potano.layercake/stage"
)

var modeTargets = []string{"o+t", "a+x,o-x", "u+w,u-w", "+x,-x", "a+rwx", "177777", "10000", "7777", "07777", "0", "00644",
	"000000000000000644", "37777777777", "40000000000", "t", "u", "u+", "+", ",", "u+x,", ",u+x", "u+tr", "u+ts", "o+st", "g+ts",
	"a+s,o-s", "a+t,a-t", "-t,+t", "u-s,+s", "o-t", "o+t,o-t", "+t,o-t", "ug+w", "u=rw", "=", "a=", "u+X", "g=u", "u+rw", "u+w-x",
	"+s,u-s", "a-r,a-w,a-x,a-s,a-t", "a-r,a-w,a-x,a-s,a-t,u+r", "08", "8", "u+w ", " 644", "u +w", "U+w", "u+W", "u++w", "u+-w"}

func genSimpleClause(r *rng.R) string {
	who := r.Pick([]string{"", "u", "g", "o", "a"})
	return who + r.Pick([]string{"+", "-"}) + r.Pick([]string{"r", "w", "x", "s", "t"})
}

func genChmodClause(r *rng.R) string {
	var b strings.Builder
	for k := r.Heavy(2); k > 0; k-- {
		b.WriteString(r.Pick([]string{"u", "g", "o", "a"}))
	}
	for k := 1 + r.Heavy(2); k > 0; k-- {
		b.WriteString(r.Pick([]string{"+", "-", "="}))
		if r.Chance(1, 8) {
			b.WriteString(r.Pick([]string{"u", "g", "o"}))
		} else {
			for j := r.Heavy(3); j > 0; j-- {
				b.WriteString(r.Pick([]string{"r", "w", "x", "X", "s", "t"}))
			}
		}
	}
	return b.String()
}

func genModeString(r *rng.R) string {
	switch x := r.Intn(20); {
	case x < 7: // the simple subset
		n := 1 + r.Heavy(3)
		cl := make([]string, n)
		for i := range cl {
			cl[i] = genSimpleClause(r)
		}
		return strings.Join(cl, ",")
	case x < 10: // octal
		n := 1 + r.Heavy(5)
		if r.Chance(1, 10) {
			n = 10 + r.Intn(5)
		}
		b := make([]byte, n)
		for i := range b {
			b[i] = byte('0' + r.Intn(8))
		}
		if n > 4 && r.Chance(1, 2) {
			for i := 0; i < n-4; i++ {
				b[i] = '0'
			}
		}
		return string(b)
	case x < 13: // anything chmod(1) takes
		n := 1 + r.Heavy(3)
		cl := make([]string, n)
		for i := range cl {
			if r.Chance(1, 2) {
				cl[i] = genSimpleClause(r)
			} else {
				cl[i] = genChmodClause(r)
			}
		}
		return strings.Join(cl, ",")
	case x < 16:
		return r.Pick(modeTargets)
	case x < 18: // operator-less and who-only forms
		n := 1 + r.Heavy(3)
		cl := make([]string, n)
		for i := range cl {
			cl[i] = r.Pick([]string{"", "u", "g", "o", "a"}) + r.Pick([]string{"", "+", "-"}) +
				r.Pick([]string{"", "r", "w", "x", "s", "t", "t", "tr", "st", "ts", "rw"})
		}
		return strings.Join(cl, ",")
	default: // alphabet soup
		al := "ugoarwxXst+-=,01789 "
		b := make([]byte, r.Heavy(8))
		for i := range b {
			b[i] = al[r.Intn(len(al))]
		}
		return string(b)
	}
}

var refereeModes = []int{0, 0644, 0755, 04755, 07777, 01777, 02750, 0111, 0600, 06000, 0421}

func genMode(r *rng.R) Input {
	s := genModeString(r)
	in := Input{Kind: "mode", Mode: B(s)}
	if refereeDomain(s) {
		n := 2 + r.Intn(2)
		for i := 0; i < n; i++ {
			if r.Chance(1, 4) {
				in.RefModes = append(in.RefModes, r.Intn(4096))
			} else {
				in.RefModes = append(in.RefModes, refereeModes[r.Intn(len(refereeModes))])
			}
		}
	}
	return in
}

func refereeDomain(s string) bool {
	if s == "" || strings.IndexByte(s, 0) >= 0 {
		return false
	}
	allOct, anyDigit := true, false
	for i := 0; i < len(s); i++ {
		if s[i] >= '0' && s[i] <= '9' {
			anyDigit = true
		}
		if s[i] < '0' || s[i] > '7' {
			allOct = false
		}
	}
	return allOct || !anyDigit
}

// ---- shared scratch directory (referee file, trees) ----
var sharedDir string

func shared() string {
	if sharedDir == "" {
		d, err := os.MkdirTemp("/var/tmp", "lcv-c17-")
		if err != nil {
			panic(err)
		}
		sharedDir = d
		syscall.Umask(0)
	}
	return sharedDir
}

func cleanupShared() {
	if sharedDir != "" {
		os.RemoveAll(sharedDir)
		sharedDir = ""
		procRoot, procTree, procPre = "", nil, nil
		recipeBase = ""
	}
}

// chmod(1) as the referee of the reference semantics: mode after "chmod -- s file", -1 when refused
func refereeChmod(s string, m int) int {
	f := filepath.Join(shared(), "referee")
	if _, err := os.Lstat(f); err != nil {
		if err := os.WriteFile(f, nil, 0600); err != nil {
			panic(err)
		}
	}
	if err := syscall.Chmod(f, uint32(m)); err != nil {
		panic(err)
	}
	cmd := exec.Command("chmod", "--", s, f)
	cmd.Env = []string{"PATH=/usr/bin:/bin", "LC_ALL=C"}
	if err := cmd.Run(); err != nil {
		if _, ok := err.(*exec.ExitError); ok {
			return -1
		}
		panic(err)
	}
	var st syscall.Stat_t
	if err := syscall.Lstat(f, &st); err != nil {
		panic(err)
	}
	return int(st.Mode & 07777)
}

func runMode(in Input) *common.Case {
	s := string(in.Mode)
	desc := map[string]interface{}{"input": in, "mode": s}
	c := &common.Case{Desc: desc}
	implTerm := q.None()
	var implDesc interface{} = "error"
	func() {
		defer func() {
			if e := recover(); e != nil {
				implDesc = fmt.Sprintf("panic: %v", e)
				implTerm = "(Some (99999999%N, 99999999%N))" // never predicted by the model
			}
		}()
		a, o, err := stage.VerifParseModString(s)
		if err == nil {
			implTerm = q.Some(q.Pair(q.N(uint64(uint32(a))), q.N(uint64(uint32(o)))))
			implDesc = map[string]interface{}{"and": fmt.Sprintf("%o", uint32(a)), "or": fmt.Sprintf("%o", uint32(o))}
		}
	}()
	refs := []string{}
	refDesc := []string{}
	for _, m := range in.RefModes {
		res := refereeChmod(s, m)
		if res < 0 {
			refs = append(refs, q.Pair(q.N(uint64(m)), q.None()))
			refDesc = append(refDesc, fmt.Sprintf("%04o -> refused", m))
		} else {
			refs = append(refs, q.Pair(q.N(uint64(m)), q.Some(q.N(uint64(res)))))
			refDesc = append(refDesc, fmt.Sprintf("%04o -> %04o", m, res))
		}
	}
	desc["obs"] = map[string]interface{}{"parseModString": implDesc, "chmod(1)": refDesc}
	c.Coq = q.App("C17.MkCase", q.App("C17.IMode", q.Hx(s)), q.App("C17.OMode", implTerm, q.List(refs)))
	c.Key = "mode:" + s
	c.Nontrivial = len(s) > 0
	c.Classes = []string{"mode"}
	if len(in.RefModes) > 0 {
		c.Classes = append(c.Classes, "mode-refereed")
	}
	return c
}
