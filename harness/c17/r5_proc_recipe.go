package c17

// The add-files script of a process-level case handed over by a RECIPE line
// "addfiles <path>" instead of the -addfiles switch, the path having white-space runs inside
// (round 5).  Beside the script there may be files whose names differ from it only in that
// white space and whose content is something else: if the recipe parser does not keep the
// value as written, another list is read (names differ, or its errors are located in another
// file), or none is found (an unlocated failure).

import (
	"fmt"
	"os"
	"path/filepath"
	"strings"

	"lcverif/common"
	q "lcverif/coqfmt"
	"lcverif/rng"
)

type procSibJ struct {
	Name  B   `json:"name"`
	Lines []B `json:"lines_hex"`
}

type procViaJ struct {
	Name     B          `json:"name"` // the script, below the case's directory
	Lead     B          `json:"lead,omitempty"`
	Sep      B          `json:"sep"`
	Trail    B          `json:"trail,omitempty"`
	Before   []B        `json:"before,omitempty"` // recipe lines before / after the addfiles line
	After    []B        `json:"after,omitempty"`
	Siblings []procSibJ `json:"siblings,omitempty"`
}

func genProcViaRecipe(r *rng.R) Input {
	in := genProc(r)
	name := wsRelPath(r)
	via := &procViaJ{Name: B(name), Lead: B(r.Pick(wsLeads)), Sep: B(r.Pick(wsSeps)), Trail: B(r.Pick(wsTrails))}
	vars := wsVariants(name)
	if len(vars) > 0 && r.Chance(2, 3) {
		taken := map[string]bool{name: true}
		first := 0
		if r.Bool() {
			first = r.Intn(len(vars))
		}
		for i, k := 0, 1+r.Intn(2); i < k && i < len(vars); i++ {
			v := vars[(first+i)%len(vars)]
			if wsConflict(taken, v) {
				continue
			}
			taken[v] = true
			lines := []string{r.Pick([]string{"dir /opt/r5sibling", "bogus /x", "file /opt/app/nonexistent", "omit /opt/app/aa", "", "dir /opt/app/new mod=0700"})}
			via.Siblings = append(via.Siblings, procSibJ{Name: B(v), Lines: common.Bs(lines)})
		}
	}
	flag := func() B {
		return B(r.Pick([]string{"nobdeps", " emptydev", "# comment", "", "compress gz  ip", "novdb\t", "compress\tnone"}))
	}
	for k := r.Heavy(2); k > 0; k-- {
		if r.Bool() {
			via.Before = append(via.Before, flag())
		} else {
			via.After = append(via.After, flag())
		}
	}
	in.List.Via = via
	return in
}

func runProcVia(in Input) *common.Case {
	ensureProcRoot()
	li := in.List
	via := li.Via
	lines := common.Ss(li.Lines)
	desc := map[string]interface{}{"input": in, "lines": lines}
	c := &common.Case{Desc: desc}
	listSeq++
	dir := filepath.Join(shared(), fmt.Sprintf("pv%d", listSeq))
	defer os.RemoveAll(dir)
	put := func(name, text string) string {
		p := filepath.Join(dir, name)
		if err := os.MkdirAll(filepath.Dir(p), 0755); err != nil {
			panic(err)
		}
		if err := os.WriteFile(p, []byte(text), 0644); err != nil {
			panic(err)
		}
		return p
	}
	script := put(string(via.Name), scriptText(lines, li.CRLF))
	for _, s := range via.Siblings {
		put(string(s.Name), scriptText(common.Ss(s.Lines), false))
	}
	var rl []string
	rl = append(rl, common.Ss(via.Before)...)
	rl = append(rl, string(via.Lead)+"addfiles"+string(via.Sep)+script+string(via.Trail))
	rl = append(rl, common.Ss(via.After)...)
	recipe := filepath.Join(shared(), fmt.Sprintf("pvrecipe%d", listSeq))
	if err := os.WriteFile(recipe, []byte(scriptText(rl, false)), 0644); err != nil {
		panic(err)
	}
	defer os.Remove(recipe)
	class, out, errs := runBinary(procRoot, "-list", "stage", "-files", "-emptydev", "-root", procRoot, "-recipe", recipe)
	var names []string
	if class == 0 && out != "" {
		names = strings.Split(strings.TrimSuffix(out, "\n"), "\n")
	}
	var msgs []string
	if errs != "" {
		msgs = strings.Split(strings.TrimSuffix(errs, "\n"), "\n")
	}
	loc := locatedIn(msgs, script)
	desc["recipe"] = rl
	desc["obs"] = map[string]interface{}{"exit_class": class, "stderr": msgs, "located": loc, "names": len(names)}
	c.Coq = q.App("C17.MkCase", q.App("C17.IProc", treeTerm(procTree), q.HxList(procPre), q.HxList(lines)),
		q.App("C17.OProc", q.N(uint64(class)), q.Bool(loc), q.HxList(names)))
	c.Key = "procvia:" + string(via.Name) + "\n" + strings.Join(lines, "\n")
	c.Nontrivial = true
	c.Classes = []string{"proc-addfiles", "proc-via-recipe-ws", fmt.Sprintf("proc-exit%d", class)}
	return c
}
