package c17

// Recipe values with white space INSIDE them (round 5).
//
// A recipe directive's argument is the rest of the line, trimmed: a path value such as
// "/srv/build  root" keeps its two blanks.  The ordinary recipe stream only has values
// without inner white space (and "atoms" lists, which are re-split anyway), so a parser that
// re-assembles the value from white-space separated fields looks the same to it.  This stream
// builds, per case, a small directory "@W" next to the fixed environment whose entries (build
// roots, profile directories, atoms files) have white-space runs of every kind inside their
// names, together with SIBLINGS that differ from them only in that white space, each with its
// own atoms: which path the program understood is visible in the printed system set, and in
// whether the run fails when only one of the two exists.

import (
	"fmt"
	"os"
	"path/filepath"
	"sort"
	"strings"
	"unicode"

	"lcverif/common"
	q "lcverif/coqfmt"
	"lcverif/rng"
)

// one entry of the per-case environment below "@W"
type wsEntryJ struct {
	Kind  string   `json:"kind"` // root | profile | afile
	Path  B        `json:"path"` // below @W
	Atoms []string `json:"atoms,omitempty"`
}

// white-space runs that may stand inside a value: blanks, tabs, the other ASCII white space
// (a \r inside a line is kept by bufio.ScanLines), NBSP, NEL, EM SPACE as UTF-8
var wsRuns = []string{"  ", "   ", "\t", "\t\t", " \t", "\t ", " \t ", "    ", "\v", "\f", "\r", " \r", "\v\f", "\r ",
	"\u00a0", "\u0085", "\u2003", " \u00a0", "\u2003 ", "\u00a0\u00a0", "\u2003\u2003", "\u0085\t", "  ", "\t", " "}

const wsSegChars = "abcdefghijklmnopqrstuvwxyz0123456789"

func wsSeg(r *rng.R) string {
	n := 1 + r.Intn(4)
	b := make([]byte, 0, n+2)
	for i := 0; i < n; i++ {
		b = append(b, wsSegChars[r.Intn(len(wsSegChars))])
	}
	s := string(b)
	switch r.Intn(10) {
	case 0:
		s += "." + string(wsSegChars[r.Intn(26)])
	case 1:
		s += "-" + string(wsSegChars[r.Intn(26)])
	case 2:
		s += "\u00e9"
	case 3:
		s = "\u00e0" + s // C3 A0: ends in the byte of NBSP, but is a letter
	}
	return s
}

// a path component with one to three white-space runs inside
func wsComponent(r *rng.R) string {
	var b strings.Builder
	b.WriteString(wsSeg(r))
	for k := 1 + r.Heavy(2); k > 0; k-- {
		b.WriteString(r.Pick(wsRuns))
		b.WriteString(wsSeg(r))
	}
	return b.String()
}

// a path below @W: one or two components, at least one of them with white space inside;
// sometimes the run touches the slash
func wsRelPath(r *rng.R) string {
	switch r.Intn(8) {
	case 0, 1: // the parent has the white space ("/srv/build  dir/root")
		c := wsComponent(r)
		if r.Chance(1, 3) {
			c += r.Pick(wsRuns)
		}
		return c + "/" + wsSeg(r)
	case 2: // both
		return wsComponent(r) + "/" + wsComponent(r)
	case 3: // the last component starts with the run
		return wsSeg(r) + "/" + r.Pick(wsRuns) + wsComponent(r)
	default:
		return wsComponent(r)
	}
}

// paths that differ from p only in its white space
func wsVariants(p string) []string {
	mapRunes := func(f func(run []rune) string) string {
		var b strings.Builder
		rs := []rune(p)
		for i := 0; i < len(rs); {
			if !unicode.IsSpace(rs[i]) {
				b.WriteRune(rs[i])
				i++
				continue
			}
			j := i
			for j < len(rs) && unicode.IsSpace(rs[j]) {
				j++
			}
			b.WriteString(f(rs[i:j]))
			i = j
		}
		return b.String()
	}
	vs := []string{
		mapRunes(func([]rune) string { return " " }),                                  // every run one blank
		mapRunes(func(run []rune) string { return strings.Repeat(" ", len(run)) }),    // every white-space rune a blank
		mapRunes(func([]rune) string { return "" }),                                   // white space removed
		mapRunes(func(run []rune) string { return string(run[:1]) }),                  // every run its first rune
		mapRunes(func(run []rune) string { return string(run) + " " }),                // one blank more
		mapRunes(func(run []rune) string { // only blanks and tabs collapse
			var b strings.Builder
			prev := false
			for _, c := range run {
				if c == ' ' || c == '\t' {
					if !prev {
						b.WriteByte(' ')
					}
					prev = true
				} else {
					b.WriteRune(c)
					prev = false
				}
			}
			return b.String()
		}),
	}
	var out []string
	seen := map[string]bool{p: true}
	for _, v := range vs {
		v = strings.Trim(v, " ") // a sibling the trimmed value could name
		if v == "" || seen[v] || strings.HasPrefix(v, "/") || strings.HasSuffix(v, "/") || strings.Contains(v, "//") {
			continue
		}
		seen[v] = true
		out = append(out, v)
	}
	return out
}

// is p one of the taken paths, or above or below one
func wsConflict(taken map[string]bool, p string) bool {
	for t := range taken {
		if strings.HasPrefix(p+"/", t+"/") || strings.HasPrefix(t+"/", p+"/") {
			return true
		}
	}
	return false
}

var wsCats = []string{"app-misc", "sys-apps", "dev-libs", "net-misc", "x", "a-b", "sys-libs"}

func wsFreshAtoms(r *rng.R, used map[string]bool, n int) []string {
	out := make([]string, 0, n)
	for len(out) < n {
		b := make([]byte, 3+r.Intn(4))
		for i := range b {
			b[i] = byte('a' + r.Intn(26))
		}
		a := r.Pick(wsCats) + "/w" + string(b)
		if used[a] {
			continue
		}
		used[a] = true
		out = append(out, a)
	}
	return out
}

var wsSeps = []string{" ", " ", "  ", "\t", " \t", "\t\t", "   ", " \t "}
var wsTrails = []string{"", "", "", " ", "\t", "  ", " \t", "\t  "}
var wsLeads = []string{"", "", "", " ", "\t", "  ", " \t"}

func wsLine(r *rng.R, key, val string) rlineJ {
	return rlineJ{Lead: B(r.Pick(wsLeads)), Key: B(key), Sep: B(r.Pick(wsSeps)), Val: B(val), Trail: B(r.Pick(wsTrails))}
}

// genRecipeWS: one recipe whose directive under test has white-space runs inside its value
func genRecipeWS(r *rng.R) Input {
	ensureRecipeEnv()
	ri := &RecipeInput{CwdRoot: r.Chance(5, 6), HasItems: true}
	used := map[string]bool{}
	for _, as := range envAtoms {
		for _, a := range as {
			used[a] = true
		}
	}
	taken := map[string]bool{} // paths below @W
	var items []rlineJ
	haveRoot, haveProfile := false, false

	// a path-valued directive: the true path and siblings, each with its own atoms
	pathDirective := func(key string) {
		kind := map[string]string{"root": "root", "profile": "profile", "atomsfile": "afile"}[key]
		var p string
		for {
			p = wsRelPath(r)
			if !wsConflict(taken, p) {
				break
			}
		}
		vars := wsVariants(p)
		// which exist: both, only the path as written, only siblings
		mode := r.Intn(7)
		if len(vars) == 0 {
			mode = 3
		}
		if mode != 5 && mode != 6 {
			taken[p] = true
			ri.Ws = append(ri.Ws, wsEntryJ{Kind: kind, Path: B(p), Atoms: wsFreshAtoms(r, used, 1+r.Intn(2))})
		}
		if mode != 3 && mode != 4 {
			k := 1 + r.Intn(2)
			first := 0
			if r.Bool() {
				first = r.Intn(len(vars))
			}
			for i := 0; i < k && i < len(vars); i++ {
				v := vars[(first+i)%len(vars)]
				if wsConflict(taken, v) {
					continue
				}
				taken[v] = true
				ri.Ws = append(ri.Ws, wsEntryJ{Kind: kind, Path: B(v), Atoms: wsFreshAtoms(r, used, 1+r.Intn(2))})
			}
		}
		val := "@W/" + p
		if key != "atomsfile" && r.Chance(1, 10) { // a directory may be named with a trailing "/."
			val += "/."
		}
		// now and then the path comes through the switch instead (never touched by the recipe parser)
		if r.Chance(1, 8) {
			switch key {
			case "root":
				if ri.Root == "" {
					ri.Root = val
					haveRoot = true
					return
				}
			case "profile":
				if ri.Profile == "" {
					ri.Profile = val
					haveProfile = true
					return
				}
			case "atomsfile":
				if ri.AtomsFile == "" {
					ri.AtomsFile = val
					return
				}
			}
		}
		if key == "root" {
			haveRoot = true
		}
		if key == "profile" {
			haveProfile = true
		}
		items = append(items, wsLine(r, key, val))
	}

	main := r.Pick([]string{"root", "root", "root", "profile", "profile", "profile", "atomsfile", "atomsfile", "atomsfile",
		"atoms", "compress", "addfiles"})
	switch main {
	case "root", "profile", "atomsfile":
		pathDirective(main)
		if r.Chance(1, 3) { // a second one of another kind (or a second atoms file)
			second := r.Pick([]string{"root", "profile", "atomsfile"})
			if (second == "root" && !haveRoot) || (second == "profile" && !haveProfile) || second == "atomsfile" {
				pathDirective(second)
			}
		}
	case "atoms":
		as := wsFreshAtoms(r, used, 2+r.Intn(3))
		var b strings.Builder
		for i, a := range as {
			if i > 0 {
				b.WriteString(r.Pick([]string{"  ", "\t", " \t ", "\v", "\f", "\r", " \r ", "   ", "\t\t", "\v\f"}))
			}
			b.WriteString(a)
		}
		items = append(items, wsLine(r, "atoms", b.String()))
	case "compress":
		items = append(items, wsLine(r, "compress", r.Pick([]string{"gz  ip", "x\tz", "none  none", "gz\u00a0ip", "b zip2", "gzip \v gzip", "xz"})))
	case "addfiles":
		items = append(items, wsLine(r, "addfiles", "@W/"+wsRelPath(r)))
	}

	// the rest of the recipe: what makes the run succeed, and ordinary lines
	if !haveRoot && (!ri.CwdRoot || r.Chance(1, 4)) {
		if r.Bool() {
			ri.Root = r.Pick([]string{"@A", "@B"})
		} else {
			items = append(items, wsLine(r, "root", r.Pick([]string{"@A", "@B"})))
		}
	}
	for k := r.Heavy(2); k > 0; k-- {
		switch r.Intn(6) {
		case 0:
			items = append(items, rlineJ{Comment: true, Raw: B(r.Pick(commentLines))})
		case 1:
			items = append(items, wsLine(r, "atoms", strings.Join(wsFreshAtoms(r, used, 1+r.Intn(2)), r.Pick([]string{" ", "  ", "\t"}))))
		case 2:
			k := r.Pick([]string{"nobdeps", "novdb", "emptydev"})
			items = append(items, rlineJ{Lead: B(r.Pick(wsLeads)), Key: B(k), Trail: B(r.Pick(wsTrails))})
		case 3:
			items = append(items, wsLine(r, "compress", r.Pick([]string{"gzip", "none", "xz"})))
		case 4:
			items = append(items, wsLine(r, "addfiles", r.Pick([]string{"@N", "/nonexistent/helper  Files", "@W/add\tfiles"})))
		case 5:
			if r.Chance(1, 3) { // a refused line: the run must fail whatever the paths are
				items = append(items, wsLine(r, r.Pick(recipeBadKeys), "@W/"+wsRelPath(r)))
			} else {
				ri.Atoms = strings.Join(wsFreshAtoms(r, used, 1+r.Intn(2)), " ")
			}
		}
	}
	// order of the lines is free
	for i := len(items) - 1; i > 0; i-- {
		j := r.Intn(i + 1)
		items[i], items[j] = items[j], items[i]
	}
	ri.Items = items
	var lines []string
	for _, it := range items {
		if it.Comment {
			lines = append(lines, string(it.Raw))
		} else {
			lines = append(lines, string(it.Lead)+string(it.Key)+string(it.Sep)+string(it.Val)+string(it.Trail))
		}
	}
	ri.Lines = common.Bs(lines)
	sort.SliceStable(ri.Ws, func(i, j int) bool { return string(ri.Ws[i].Path) < string(ri.Ws[j].Path) })
	return Input{Kind: "recipe", Recipe: ri}
}

// ---- the per-case environment on disk and as a term ----
func wsBase() string { return filepath.Join(recipeBase, "W") }

func writeAtoms(file string, atoms []string, star string) {
	var b strings.Builder
	for _, a := range atoms {
		b.WriteString(star + a + "\n")
	}
	if err := os.WriteFile(file, []byte(b.String()), 0644); err != nil {
		panic(err)
	}
}

// materializeWs builds the entries below @W; the returned function removes them again
func materializeWs(ri *RecipeInput) func() {
	if len(ri.Ws) == 0 {
		return func() {}
	}
	base := wsBase()
	os.RemoveAll(base)
	mk := func(d string) {
		if err := os.MkdirAll(d, 0755); err != nil {
			panic(err)
		}
	}
	mk(base)
	for _, e := range ri.Ws {
		p := filepath.Join(base, string(e.Path))
		switch e.Kind {
		case "root":
			mk(filepath.Join(p, "var/db/pkg"))
			mk(filepath.Join(p, "etc/portage/make.profile"))
			writeAtoms(filepath.Join(p, "etc/portage/make.profile/packages"), e.Atoms, "*")
		case "profile":
			mk(p)
			writeAtoms(filepath.Join(p, "packages"), e.Atoms, "*")
		case "afile":
			mk(filepath.Dir(p))
			writeAtoms(p, e.Atoms, "")
		default:
			panic("c17: unknown ws entry kind " + e.Kind)
		}
	}
	return func() { os.RemoveAll(base) }
}

// the entries as the model's environment sees them
func wsEnvTerms(ri *RecipeInput) (roots []string, profs, afiles []string) {
	base := wsBase()
	for _, e := range ri.Ws {
		p := filepath.Join(base, string(e.Path))
		switch e.Kind {
		case "root":
			roots = append(roots, p)
			profs = append(profs, q.Pair(q.Hx(p+"/etc/portage/make.profile"), q.HxList(e.Atoms)))
		case "profile":
			profs = append(profs, q.Pair(q.Hx(p), q.HxList(e.Atoms)))
		case "afile":
			afiles = append(afiles, q.Pair(q.Hx(p), q.HxList(e.Atoms)))
		}
	}
	return
}

func wsKey(ri *RecipeInput) string {
	if len(ri.Ws) == 0 {
		return ""
	}
	var b strings.Builder
	for _, e := range ri.Ws {
		fmt.Fprintf(&b, "|%s:%x:%v", e.Kind, []byte(e.Path), e.Atoms)
	}
	return b.String()
}

// does a value of the recipe (or a switch) have white space other than single blanks inside
func wsInner(ri *RecipeInput) bool {
	inner := func(v string) bool {
		prev := false
		for _, c := range v {
			sp := unicode.IsSpace(c)
			if sp && (c != ' ' || prev) {
				return true
			}
			prev = sp
		}
		return false
	}
	for _, it := range ri.Items {
		if !it.Comment && inner(string(it.Val)) {
			return true
		}
	}
	return inner(ri.Root) || inner(ri.Profile) || inner(ri.AtomsFile)
}
