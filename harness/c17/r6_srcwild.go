package c17

// Round 6: add-files lines whose src= value has a WILDCARD in its last element and lies below
// the build root (`dir /opt/site src=$$stageroot/srv/overlay/*`).  stage/addRemove.go
// addFromWildcard enters every match of the source pattern under the line's name with its path
// RELATIVE to the globbed source directory (for `dir` lines the matches are expanded
// recursively).  The input class: source directories with nested non-empty subdirectories, equal
// base names in different subdirectories (and at the first level), empty subdirectories,
// symlinks; flat source directories as controls; `dir` and `file` (also `node`) lines; targets
// with and without members; other lines of the ordinary list generator around it.
// Modelled by StageWild.add_src_wild; observed through the ordinary list stream (runList).

import (
	"path/filepath"
	"strings"

	"lcverif/common"
	"lcverif/rng"
)

// names for the source directory itself and its ancestors: nothing the pattern would have to escape
var r6SrcDirNames = []string{"overlay", "site.d", "srv", "skel", "a b", "d'q", "é", ".cfg", "conf.d", "o-1"}
var r6SubNames = []string{"conf.d", "local", "net", "x*d", "a b", "sub", "lib64", ".d", "é", "bin"}
var r6LeafNames = []string{"start.sh", "aa", "ab", "b", "c.conf", "with space", "x*y", "*", "q'r", ".hidden", "README", "k=v", "z"}

type r6Overlay struct {
	dir     string   // path of the globbed directory inside the build root
	entries []TEntry // everything below it (parents first)
	first   []string // base names at the first level
	nested  []string // paths relative to dir of entries below the first level
}

func r6GenOverlay(r *rng.R, parent string, flat bool) r6Overlay {
	ov := r6Overlay{dir: parent + "/" + r.Pick(r6SrcDirNames)}
	seen := map[string]bool{}
	add := func(rel string, kind int, depth int) bool {
		if seen[rel] {
			return false
		}
		seen[rel] = true
		e := TEntry{Path: B(ov.dir + "/" + rel), Kind: kind}
		if kind == 3 {
			e.Link = B(r.Pick([]string{"aa", "nowhere", "../x", "start.sh"}))
		}
		ov.entries = append(ov.entries, e)
		if depth == 0 {
			ov.first = append(ov.first, rel)
		} else {
			ov.nested = append(ov.nested, rel)
		}
		return true
	}
	leafKind := func() int {
		if r.Chance(1, 6) {
			return 3
		}
		return 2
	}
	shared := r.Pick(r6LeafNames) // a base name that turns up in several directories
	nleaf := r.Intn(3)
	if flat {
		nleaf = 1 + r.Intn(4)
	}
	for i := 0; i < nleaf; i++ {
		n := r.Pick(r6LeafNames)
		if i == 0 && r.Bool() {
			n = shared
		}
		add(n, leafKind(), 0)
	}
	if flat {
		if r.Chance(1, 3) { // an EMPTY subdirectory keeps a flat directory flat
			add(r.Pick(r6SubNames), 1, 0)
		}
		return ov
	}
	var fill func(rel string, depth int)
	fill = func(rel string, depth int) {
		n := 1 + r.Intn(3)
		for i := 0; i < n; i++ {
			name := r.Pick(r6LeafNames)
			if i == 0 && r.Chance(2, 3) {
				name = shared
			}
			add(rel+"/"+name, leafKind(), depth)
		}
		if depth < 3 && r.Chance(1, 2) {
			sub := rel + "/" + r.Pick(r6SubNames)
			if add(sub, 1, depth) && r.Chance(5, 6) {
				fill(sub, depth+1)
			}
		}
	}
	nsub := 1 + r.Intn(3)
	for i := 0; i < nsub; i++ {
		sub := r.Pick(r6SubNames)
		if i == 1 && r.Chance(1, 3) {
			sub = shared // a directory with the base name of a file elsewhere
		}
		if !add(sub, 1, 0) {
			continue
		}
		if i == 0 || r.Chance(4, 5) {
			fill(sub, 1)
		}
	}
	return ov
}

func genListSrcWild(r *rng.R) Input {
	tree := genTree(r)
	have := map[string]bool{}
	var dirs []string
	for _, e := range tree {
		have[string(e.Path)] = true
		if e.Kind == 1 && !strings.ContainsAny(string(e.Path), "*") {
			dirs = append(dirs, string(e.Path))
		}
	}
	// where the source directory lives: at the top or below an existing directory (no asterisk in its path)
	parent := ""
	if len(dirs) > 0 && r.Chance(2, 3) {
		parent = dirs[r.Intn(len(dirs))]
	}
	flat := r.Chance(1, 4)
	ov := r6GenOverlay(r, parent, flat)
	if have[ov.dir] {
		ov = r6GenOverlay(r, parent+"/r6", flat)
		if !have[parent+"/r6"] {
			tree = append(tree, TEntry{Path: B(parent + "/r6"), Kind: 1})
		}
	}
	tree = append(tree, TEntry{Path: B(ov.dir), Kind: 1})
	tree = append(tree, ov.entries...)

	var known []string
	var init []B
	for _, e := range tree {
		if r.Chance(1, 4) {
			init = append(init, e.Path)
			known = append(known, string(e.Path))
		}
	}

	// the target: a new name, or an existing directory whose children are members already
	target := r.Pick([]string{"/opt/site", "/srv/www", "/t", "/etc/site.d", "/new dir/x", "/o*t"})
	if len(dirs) > 0 && r.Bool() {
		target = dirs[r.Intn(len(dirs))]
		for _, e := range tree {
			if filepath.Dir(string(e.Path)) == target && r.Chance(3, 4) {
				init = append(init, e.Path)
				known = append(known, string(e.Path))
			}
		}
	}

	// a member of the target that has the NAME of a first-level source entry but another type:
	// the source entry must replace it
	if have[target] && len(ov.first) > 0 && r.Bool() {
		n := ov.first[r.Intn(len(ov.first))]
		p := target + "/" + n
		inTree, srcKind := false, 2
		for _, e := range tree {
			if string(e.Path) == p {
				inTree = true
			}
			if string(e.Path) == ov.dir+"/"+n {
				srcKind = e.Kind
			}
		}
		if !inTree {
			e := TEntry{Path: B(p), Kind: 2}
			if srcKind == 2 {
				e.Kind = 1 + 2*r.Intn(2)
			}
			if e.Kind == 3 {
				e.Link = B("aa")
			}
			tree = append(tree, e)
			init = append(init, e.Path)
			known = append(known, p)
		}
	}

	ty := "dir"
	switch r.Intn(10) {
	case 0, 1, 2:
		ty = "file"
	case 3:
		ty = "node"
	}
	// the pattern of the last element
	var pat []Tok
	if r.Chance(3, 5) || len(ov.first) == 0 {
		pat = []Tok{{TStar, 0}}
	} else {
		pat = patternToks(r, ov.first[r.Intn(len(ov.first))])
	}
	srcDir := ov.dir
	if r.Chance(1, 10) {
		srcDir = strings.Replace(srcDir, "/", "//", 1)
	}
	if r.Chance(1, 12) {
		srcDir += "/nonexistent"
	}
	val := append(lit("src=$$stageroot"+srcDir+"/"), pat...)
	mkLine := func(ty string, name []Tok, opts ...[]Tok) []SField {
		fsl := []SField{{genSep(r, true), QBare, lit(ty)}, {genSep(r, false), genStyle(r, name), name}}
		for _, o := range opts {
			fsl = append(fsl, SField{genSep(r, false), genStyle(r, o), o})
		}
		return fsl
	}
	opts := [][]Tok{val}
	if r.Chance(1, 6) {
		opts = append(opts, lit("uid=12"))
	}
	if r.Chance(1, 8) {
		opts = append(opts, lit("absent=skip"))
	}
	if r.Chance(1, 6) {
		opts[0], opts[len(opts)-1] = opts[len(opts)-1], opts[0]
	}
	tname := pathToks(target)
	main := mkLine(ty, tname, opts...)

	var items []itemJ
	var lines []string
	push := func(fl []SField) {
		items = append(items, itemJ{Fields: toJ(fl)})
		lines = append(lines, RenderLine(fl, ""))
	}
	for i := r.Intn(3); i > 0; i-- {
		push(genListLine(r, tree, &known))
	}
	if r.Chance(1, 4) { // the target entered beforehand
		push(mkLine("dir", tname))
	}
	push(main)
	// follow-ups that look at the members the line must have made
	all := append(append([]string{}, ov.first...), ov.nested...)
	if len(all) > 0 && r.Chance(1, 3) {
		rel := all[r.Intn(len(all))]
		push(mkLine("omit", pathToks(target+"/"+rel)))
	}
	if len(ov.nested) > 0 && r.Chance(1, 4) {
		rel := ov.nested[r.Intn(len(ov.nested))]
		push(mkLine("omit", append(pathToks(target+"/"+filepath.Dir(rel)+"/"), Tok{TStar, 0})))
	}
	if r.Chance(1, 5) { // a second source line into the same target
		push(mkLine(r.Pick([]string{"dir", "file"}), tname, append(lit("src=$$stageroot"+ov.dir+"/"), Tok{TStar, 0})))
	}
	for i := r.Intn(2); i > 0; i-- {
		push(genListLine(r, tree, &known))
	}
	li := &ListInput{Tree: tree, Init: init, HasItems: true, Items: items, Lines: common.Bs(lines), CRLF: r.Chance(1, 12)}
	return Input{Kind: "list", List: li}
}
