package c17

import (
	"fmt"
	"os"
	"path/filepath"
	"strings"

	"lcverif/common"
	q "lcverif/coqfmt"
	"lcverif/rng"
)

// ---- recipe files through "stagemaker -list system -recipe F" ----
type rlineJ struct {
	Comment bool `json:"comment,omitempty"`
	Raw     B    `json:"raw,omitempty"`
	Lead    B    `json:"lead,omitempty"`
	Key     B    `json:"key,omitempty"`
	Sep     B    `json:"sep,omitempty"`
	Val     B    `json:"val,omitempty"`
	Trail   B    `json:"trail,omitempty"`
}

type RecipeInput struct {
	CwdRoot   bool     `json:"cwd_is_root"` // run with a valid build root as current directory
	Root      string   `json:"root_switch,omitempty"`
	Profile   string   `json:"profile_switch,omitempty"`
	Atoms     string   `json:"atoms_switch,omitempty"`
	AtomsFile string   `json:"atomsfile_switch,omitempty"`
	HasItems  bool     `json:"structured,omitempty"`
	Items     []rlineJ `json:"items,omitempty"`
	Lines     []B      `json:"lines_hex"`
	// round 5: per-case entries below @W whose names have white space inside (r5_recipe_ws.go)
	Ws []wsEntryJ `json:"ws_env,omitempty"`
}

// the fixed environment (paths use placeholders so that inputs replay anywhere):
//   @A @B   build roots with their own default profile
//   @C      a directory that is not a build root
//   @P1 @P2 profile directories, @F1 @F2 atoms files, @N nothing there
var envAtoms = map[string][]string{
	"@A/etc/portage/make.profile": {"sys-apps/foo", "sys-libs/bar"},
	"@B/etc/portage/make.profile": {"sys-apps/baz"},
	"@P1":                         {"app-shells/bash", "sys-apps/foo"},
	"@P2":                         {},
	"@F1":                         {"app-editors/vim", "net-misc/curl"},
	"@F2":                         {"dev-util/strace", "sys-libs/bar"},
}
var envOrder = []string{"@A/etc/portage/make.profile", "@B/etc/portage/make.profile", "@P1", "@P2", "@F1", "@F2"}
var atomPool = []string{"app-misc/eix", "app-portage/gentoolkit", "net-analyzer/netcat", "sys-apps/foo", "app-editors/vim",
	"dev-util/strace", "x/y", "a-b/c"}

var recipeBase string

func ensureRecipeEnv() {
	if recipeBase != "" {
		return
	}
	base := filepath.Join(shared(), "renv")
	for _, d := range []string{"A/var/db/pkg", "B/var/db/pkg", "C", "A/etc/portage/make.profile", "B/etc/portage/make.profile", "P1", "P2"} {
		if err := os.MkdirAll(filepath.Join(base, d), 0755); err != nil {
			panic(err)
		}
	}
	for _, k := range envOrder {
		p := filepath.Join(base, k[1:])
		var b strings.Builder
		star := "*"
		if strings.HasPrefix(k, "@F") {
			star = ""
		} else {
			p = filepath.Join(p, "packages")
		}
		for _, a := range envAtoms[k] {
			b.WriteString(star + a + "\n")
		}
		if err := os.WriteFile(p, []byte(b.String()), 0644); err != nil {
			panic(err)
		}
	}
	recipeBase = base
}

func expand(s string) string {
	if strings.HasPrefix(s, "@") {
		return filepath.Join(recipeBase, s[1:])
	}
	return s
}

// values are written with placeholders; every "@X" at the start of a word is expanded
func expandWords(s string) string {
	if !strings.Contains(s, "@") {
		return s
	}
	var b strings.Builder
	for i := 0; i < len(s); i++ {
		if s[i] == '@' && (i == 0 || s[i-1] == ' ' || s[i-1] == '\t') {
			b.WriteString(recipeBase + "/")
			continue
		}
		b.WriteByte(s[i])
	}
	return b.String()
}

var recipeKeys = []string{"root", "profile", "atoms", "atoms", "atoms", "atomsfile", "addfiles", "compress", "nobdeps", "novdb", "emptydev"}
var recipeBadKeys = []string{"root%", "%", "Root", "include", "atom", "%d", "%s%n", "staticdev", "nobdep", "root=", "-root", "'root'", "ROOT", "atomfile"}

func genRecipeValue(r *rng.R, key string) string {
	if r.Chance(1, 14) {
		return ""
	}
	switch key {
	case "root":
		return r.Pick([]string{"@A", "@B", "@A", "@B", "@A", "@C", "@N", "@A/", "@B/.", "."})
	case "profile":
		return r.Pick([]string{"@P1", "@P2", "@P2", "@A/etc/portage/make.profile", "@B/etc/portage/make.profile", "@N", "@P1/"})
	case "atoms":
		n := 1 + r.Heavy(3)
		as := make([]string, n)
		for i := range as {
			as[i] = r.Pick(atomPool)
		}
		return strings.Join(as, r.Pick([]string{" ", "  ", "\t"}))
	case "atomsfile":
		return r.Pick([]string{"@F1", "@F2", "@F1", "@F2", "@F1", "@N"})
	case "addfiles":
		return r.Pick([]string{"@N", "/nonexistent/helperFiles", "@F1"})
	case "compress":
		return r.Pick([]string{"gzip", "none", "bogus", "xz"})
	default: // flag keys normally have no argument
		if r.Chance(1, 6) {
			return r.Pick([]string{"yes", "1", "@A"})
		}
		return ""
	}
}

func genRecipe(r *rng.R) Input {
	ensureRecipeEnv()
	ri := &RecipeInput{CwdRoot: r.Chance(5, 6), HasItems: true}
	if r.Chance(1, 4) {
		ri.Root = r.Pick([]string{"@A", "@B", "@A", "@B", "@N"})
	}
	if r.Chance(1, 6) {
		ri.Profile = r.Pick([]string{"@P1", "@P2", "@P2", "@N"})
	}
	if r.Chance(1, 5) {
		ri.Atoms = r.Pick(atomPool) + " " + r.Pick(atomPool)
	}
	if r.Chance(1, 8) {
		ri.AtomsFile = r.Pick([]string{"@F1", "@F2"})
	}
	n := 1 + r.Heavy(5)
	var lines []string
	for i := 0; i < n; i++ {
		if r.Chance(1, 7) {
			c := r.Pick(commentLines)
			ri.Items = append(ri.Items, rlineJ{Comment: true, Raw: B(c)})
			lines = append(lines, c)
			continue
		}
		key := r.Pick(recipeKeys)
		if i == 0 && ri.Root != "" && r.Chance(1, 2) { // switch against recipe
			key = "root"
		}
		if i == 0 && ri.Root == "" && ri.Profile != "" && r.Chance(1, 2) {
			key = "profile"
		}
		if r.Chance(1, 16) {
			key = r.Pick(recipeBadKeys)
		}
		val := genRecipeValue(r, key)
		lead, sep, trail := "", "", ""
		if r.Chance(1, 4) {
			lead = r.Pick([]string{" ", "  ", "\t", " \t"})
		}
		if val != "" {
			sep = r.Pick([]string{" ", " ", "\t", "  "})
		} else if r.Chance(1, 4) {
			sep = " "
		}
		if r.Chance(1, 6) {
			trail = r.Pick([]string{" ", "\t"})
		}
		it := rlineJ{Lead: B(lead), Key: B(key), Sep: B(sep), Val: B(val), Trail: B(trail)}
		ri.Items = append(ri.Items, it)
		lines = append(lines, lead+key+sep+val+trail)
	}
	if r.Chance(1, 8) { // raw soup
		ri.HasItems = false
		ri.Items = nil
		k := r.Intn(len(lines))
		lines[k] = r.Pick([]string{"root @A", " atoms x/y", "%s %d", "root", "\x00", "atoms\tapp-misc/eix\t", "nobdeps　", "root @A extra"})
	}
	ri.Lines = common.Bs(lines)
	return Input{Kind: "recipe", Recipe: ri}
}

var recipeSeq int

func runRecipe(in Input) *common.Case {
	ensureRecipeEnv()
	ri := in.Recipe
	defer materializeWs(ri)()
	raw := common.Ss(ri.Lines)
	lines := make([]string, len(raw))
	for i, l := range raw {
		lines[i] = expandWords(l)
	}
	desc := map[string]interface{}{"input": in, "lines": raw}
	c := &common.Case{Desc: desc}
	recipeSeq++
	file := filepath.Join(shared(), fmt.Sprintf("recipe%d", recipeSeq))
	if err := os.WriteFile(file, []byte(scriptText(lines, false)), 0644); err != nil {
		panic(err)
	}
	defer os.Remove(file)
	args := []string{"-list", "system", "-recipe", file}
	if ri.Root != "" {
		args = append(args, "-root", expand(ri.Root))
	}
	if ri.Profile != "" {
		args = append(args, "-profile", expand(ri.Profile))
	}
	if ri.Atoms != "" {
		args = append(args, "-atoms", ri.Atoms)
	}
	if ri.AtomsFile != "" {
		args = append(args, "-atomsfile", expand(ri.AtomsFile))
	}
	cwd := expand("@C")
	if ri.CwdRoot {
		cwd = expand("@A")
	}
	class, out, errs := runBinary(cwd, args...)
	var atoms []string
	if class == 0 && out != "" {
		atoms = strings.Split(strings.TrimSuffix(out, "\n"), "\n")
	}
	var msgs []string
	if errs != "" {
		msgs = strings.Split(strings.TrimSuffix(errs, "\n"), "\n")
	}
	loc := locatedIn(msgs, file)
	desc["obs"] = map[string]interface{}{"exit_class": class, "stderr": msgs, "located": loc, "stdout": atoms}

	// environment term
	wsRoots, wsProfs, wsAfiles := wsEnvTerms(ri)
	roots := q.HxList(append([]string{expand("@A"), expand("@B")}, wsRoots...))
	var profs, afiles []string
	for _, k := range envOrder {
		t := q.Pair(q.Hx(expand(k)), q.HxList(envAtoms[k]))
		if strings.HasPrefix(k, "@F") {
			afiles = append(afiles, t)
		} else {
			profs = append(profs, t)
		}
	}
	profs, afiles = append(profs, wsProfs...), append(afiles, wsAfiles...)
	env := q.App("MkEnv", q.Hx(cwd), roots, q.List(profs), q.List(afiles))
	cmd := q.App("MkRC", q.Hx(expand(ri.Root)), q.Hx(expand(ri.Profile)), q.Hx(ri.Atoms), q.Hx(expand(ri.AtomsFile)))
	items := q.None()
	if ri.HasItems {
		ts := make([]string, len(ri.Items))
		for i, it := range ri.Items {
			if it.Comment {
				ts[i] = q.App("RComment", q.Hx(string(it.Raw)))
			} else {
				ts[i] = q.App("RLine", q.App("MkQ", q.Hx(string(it.Lead)), q.Hx(string(it.Key)), q.Hx(string(it.Sep)),
					q.Hx(expandWords(string(it.Val))), q.Hx(string(it.Trail))))
			}
		}
		items = q.Some(q.List(ts))
	}
	c.Coq = q.App("C17.MkCase", q.App("C17.IRecipe", env, cmd, items, q.HxList(lines)),
		q.App("C17.ORecipe", q.N(uint64(class)), q.Bool(loc), q.HxList(atoms)))
	c.Key = "recipe:" + strings.Join(raw, "\n") + fmt.Sprint(ri.Root, ri.Profile, ri.Atoms, ri.AtomsFile, ri.CwdRoot) + wsKey(ri)
	c.Nontrivial = true
	c.Classes = []string{"recipe", fmt.Sprintf("recipe-exit%d", class)}
	if !ri.HasItems {
		c.Classes = append(c.Classes, "recipe-raw")
	}
	if wsInner(ri) {
		c.Classes = append(c.Classes, "recipe-inner-ws")
	}
	if len(ri.Ws) > 0 {
		c.Classes = append(c.Classes, "recipe-ws-siblings")
	}
	return c
}
