package c17

import (
	"lcverif/common"
	"lcverif/rng"
)

type ListInput struct{}
type RecipeInput struct{}

func genList(r *rng.R) Input         { return genStructuredLine(r) }
func genRecipe(r *rng.R) Input       { return genMode(r) }
func runList(in Input) *common.Case   { panic("list: not yet") }
func runRecipe(in Input) *common.Case { panic("recipe: not yet") }
