// Package c18: configuration files, switches and environment -> config.Load (property C18).
//
// Every case builds a small directory tree below a private root, sets LAYERROOT / LAYERCONF /
// HOME / os.Args[0] / the working directory, calls the real config.Load and records the result
// together with a listing of the tree (the abstract file system the Coq model resolves path
// names in).  A sample of the cases is also run through the layercake binary (`status`).
package c18

import (
	"bytes"
	"context"
	"crypto/sha1"
	"encoding/hex"
	"encoding/json"
	"fmt"
	"os"
	"os/exec"
	"path/filepath"
	"sort"
	"strings"
	"syscall"
	"time"

	"lcverif/common"
	q "lcverif/coqfmt"
	"lcverif/rng"

	"potano.layercake/config"
)

type B = common.B

// T stands for the private root directory in every string of an Input.
const T = "{T}"

type FileSpec struct {
	Path    B    `json:"path"`
	Dir     bool `json:"dir"`
	Content B    `json:"content"`
	Link    B    `json:"link,omitempty"` // a symbolic link to this path (a candidate reached through a link is a file all the same)
}

type Input struct {
	SwConf    B          `json:"sw_config"`
	SwBase    B          `json:"sw_basepath"`
	LayerRoot B          `json:"LAYERROOT"`
	LayerConf B          `json:"LAYERCONF"`
	Home      B          `json:"HOME"`
	Argv0     B          `json:"argv0"`
	Cwd       B          `json:"cwd"`
	Files     []FileSpec `json:"files"`
	Bin       bool       `json:"run_binary"`
	Note      string     `json:"note,omitempty"`
	// SeparateFS: every directory that holds a regular file is a file system of its own (a fresh
	// tmpfs): files of a chain then have equal inode numbers on different devices
	SeparateFS bool `json:"separate_fs,omitempty"`
}

func init() {
	common.Register("c18", common.Prop{
		Generate: func(r common.Rand, tier string, n int, emit func(*common.Case)) {
			Generate(rng.New(r.U64()), tier, n, emit)
		},
		Replay: RunJSON,
	})
}

// ------------------------------------------------------------------ generators

var keyNames = []string{"BASEPATH", "LAYERS", "BUILDROOT", "BINPKGS", "GENERATED_FILES", "OVERFS_WORKDIR",
	"OVERFS_UPPERDIR", "EXPORTS", "EXPORT_BINPKGS", "EXPORT_GENERATED_FILES", "CHROOT_EXEC"}

func absDir(r *rng.R) string {
	return r.Pick([]string{T + "/b1", T + "/b2/base", "/var/lib/lc2", "/srv/cake", T + "/b1//x/../y/", "/opt/./lc/",
		"/", "//", "/a/b/../../c", "/..", "/../up", T + "/b 3", "/var/lib/layercake", "/q/", "/r/./."})
}
func relDir(r *rng.R) string {
	return r.Pick([]string{"layers2", "./l", "../out", "a/b/", "l//m", "..", ".", "exp", "my layers", "x/../y", "../../z",
		"layers", "export", "e/./f/"})
}
func plainVal(r *rng.R) string {
	return r.Pick([]string{"bld", "pk gs", "over/work", "gen=1", "x#y", "build", "packages", "u//p", "/abs/val", "../v",
		"w", "generated", "a = b", "//c"})
}

func valueFor(r *rng.R, key string) string {
	switch key {
	case "BASEPATH":
		if r.Chance(1, 14) {
			return r.Pick([]string{"relbase", "./rb", "../rb"})
		}
		return absDir(r)
	case "LAYERS", "EXPORTS":
		if r.Chance(1, 2) {
			return relDir(r)
		}
		return absDir(r)
	case "CHROOT_EXEC":
		if r.Chance(1, 14) {
			return r.Pick([]string{"chroot", "bin/chroot"})
		}
		return r.Pick([]string{"/usr/sbin/chroot", "/bin/../sbin/chroot", "/usr/bin/chroot", "/c//hroot/"})
	}
	return plainVal(r)
}

func randCase(r *rng.R, s string) string {
	switch r.Intn(4) {
	case 0:
		return s
	case 1:
		return strings.ToLower(s)
	case 2:
		b := []byte(strings.ToLower(s))
		if len(b) > 0 {
			b[0] = s[0]
		}
		return string(b)
	}
	b := []byte(s)
	for i := range b {
		if r.Bool() {
			b[i] = strings.ToLower(string(b[i]))[0]
		}
	}
	return string(b)
}

var spaces = []string{"", "", " ", " ", "  ", "\t", " \t "}
var oddSpaces = []string{"\u00a0", "\u2003", "\u3000", "\u0085", "\v", "\f", "\u1680", "\u2028 ", "\u202f", "\u205f", "\u200a"}

func sp(r *rng.R, odd bool) string {
	if odd && r.Chance(1, 3) {
		return r.Pick(oddSpaces)
	}
	return r.Pick(spaces)
}

func renderLine(r *rng.R, key, val string, odd bool) string {
	return sp(r, odd) + randCase(r, key) + sp(r, odd) + "=" + sp(r, odd) + val + sp(r, odd)
}

var noise = []string{"", "", "# a comment", "  # indented comment", "// another", "\t//x = y", "#BASEPATH = /no", "   ", "\t"}

// spelling of an absolute path name that resolves to the same file
func spell(r *rng.R, p string) string {
	switch r.Intn(7) {
	case 0:
		i := strings.LastIndexByte(p, '/')
		return p[:i] + "//" + p[i+1:]
	case 1:
		i := strings.LastIndexByte(p, '/')
		return p[:i] + "/./" + p[i+1:]
	case 2: // through an existing sibling directory and back
		return T + "/conf/../" + strings.TrimPrefix(p, T+"/")
	case 3:
		return strings.Replace(p, T+"/", T+"/./", 1)
	}
	return p
}

type fileGen struct {
	path  string
	lines []string
}

func (f *fileGen) content(r *rng.R, crlf bool) string {
	var b strings.Builder
	for i, l := range f.lines {
		b.WriteString(l)
		if i < len(f.lines)-1 || r.Chance(4, 5) {
			if crlf {
				b.WriteString("\r\n")
			} else {
				b.WriteString("\n")
			}
		}
	}
	return b.String()
}

var malformedLines = []string{"NOSUCHKEY = 1", "NOSUCHKEY =", "NOSUCHKEY", "garbage line here", "= value", "=", "BASEPATH",
	"LAYERS", "BASE PATH = /x", "WORKDIR = w2", "UPPERDIR = u2", "CHROOTEXEC = /sbin/chroot", "workdir=", "EXPORT = e",
	"LAYER = l", "\xff\xfe = 3", "ba\u017fepath = /long-s", "b\u0131npkgs = dotless", "/ BASEPATH = /y", "BUILDROOT == b",
	"BUILDROOT = ", "-BASEPATH = /z", "BASEPATH: /colon", "[section]", "CONFIGFILE", "overfs_workdir = ow", "KK = 1",
	"BASEPATH\x00 = /nul", "BINPKGS = \xc3\x28"}

func genCase(r *rng.R, malformed bool) Input {
	var in Input
	in.Cwd = B(T + "/cwd")
	dirs := []string{T + "/cwd", T + "/home", T + "/usr/bin", T + "/usr/etc", T + "/conf", T + "/d"}
	odd := malformed && r.Chance(1, 2)
	crlf := r.Chance(1, 8)

	// ---- the chain
	n := []int{0, 1, 1, 1, 2, 2, 2, 3, 3, 4, 5, 6}[r.Intn(12)]
	pool := []string{T + "/conf/a.conf", T + "/conf/b.conf", T + "/c.conf", T + "/d/e.conf", T + "/cwd/f.conf",
		T + "/conf/g.conf", T + "/d/h.conf"}
	for i := len(pool) - 1; i > 0; i-- {
		j := r.Intn(i + 1)
		pool[i], pool[j] = pool[j], pool[i]
	}
	head := r.Pick([]string{"switch", "switch", "switch", "layerconf", "layerconf", "home", "exe", "switchrel"})
	if n == 0 && r.Chance(1, 2) {
		head = "none"
	}
	chain := make([]*fileGen, n)
	for i := range chain {
		chain[i] = &fileGen{path: pool[i]}
	}
	if n > 0 {
		switch head {
		case "home":
			chain[0].path = T + "/home/.layercake"
		case "exe":
			chain[0].path = T + "/usr/etc/layercake.conf"
		case "switchrel":
			chain[0].path = T + "/cwd/f.conf"
			for i := 1; i < n; i++ {
				if chain[i].path == chain[0].path {
					chain[i].path = pool[n%len(pool)]
					if chain[i].path == chain[0].path {
						chain[i].path = T + "/conf/z.conf"
					}
				}
			}
		}
	}
	// which settings does anything set BASEPATH? (targeted: relative dirs with no base path anywhere)
	noBase := r.Chance(1, 4)
	end := "none"
	for i, f := range chain {
		nk := r.Intn(4)
		if r.Chance(1, 6) {
			nk = len(keyNames)
		}
		used := map[string]bool{}
		for j := 0; j < nk; j++ {
			k := keyNames[r.Intn(len(keyNames))]
			if r.Chance(1, 3) {
				k = r.Pick([]string{"BASEPATH", "LAYERS", "EXPORTS"})
			}
			if used[k] && !(malformed && r.Chance(1, 4)) {
				continue
			}
			if k == "BASEPATH" && noBase {
				continue
			}
			used[k] = true
			v := valueFor(r, k)
			if r.Chance(1, 12) {
				v = "" // given with an empty value = omitted
			}
			f.lines = append(f.lines, renderLine(r, k, v, odd))
		}
		// link to the next file
		link := ""
		if i < n-1 {
			link = spell(r, chain[i+1].path)
			if strings.HasPrefix(chain[i+1].path, T+"/cwd/") && r.Chance(1, 6) {
				link = strings.TrimPrefix(chain[i+1].path, T+"/cwd/") // relative to the working directory
			}
		} else {
			switch r.Intn(20) {
			case 0, 1: // cycle
				end = "cycle"
				link = chain[r.Intn(n)].path
				if r.Chance(1, 2) {
					link = spell(r, link)
				}
			case 2:
				end = "self"
				link = spell(r, f.path)
			case 3:
				end = "missing"
				link = r.Pick([]string{T + "/conf/nosuch.conf", "/nonexistent/x.conf", T + "/conf/a.conf/", T + "/nodir/../conf/a.conf",
					T + "/conf/a.conf/.", "nosuch-relative.conf"})
			case 4:
				end = "directory"
				link = r.Pick([]string{T + "/conf", T + "/d/", T + "/home/."})
			case 5:
				if r.Chance(1, 2) {
					end = "relative-missing"
					link = "rel.conf"
				}
			}
		}
		if link != "" {
			pos := r.Intn(len(f.lines) + 1)
			l := renderLine(r, "CONFIGFILE", link, odd)
			f.lines = append(f.lines[:pos:pos], append([]string{l}, f.lines[pos:]...)...)
		}
		// comments and blank lines
		for j := r.Intn(3); j > 0; j-- {
			pos := r.Intn(len(f.lines) + 1)
			f.lines = append(f.lines[:pos:pos], append([]string{r.Pick(noise)}, f.lines[pos:]...)...)
		}
		if malformed && r.Chance(2, 3) {
			for j := 1 + r.Intn(2); j > 0; j-- {
				pos := r.Intn(len(f.lines) + 1)
				f.lines = append(f.lines[:pos:pos], append([]string{r.Pick(malformedLines)}, f.lines[pos:]...)...)
			}
		}
	}
	seen := map[string]bool{}
	for _, f := range chain {
		if seen[f.path] {
			continue
		}
		seen[f.path] = true
		in.Files = append(in.Files, FileSpec{Path: B(f.path), Content: B(f.content(r, crlf))})
	}
	decoy := func(p string) { // a competing candidate that must lose (or win, per the documented order)
		if seen[p] {
			return
		}
		seen[p] = true
		g := &fileGen{path: p}
		for j := 1 + r.Intn(3); j > 0; j-- {
			k := keyNames[r.Intn(len(keyNames))]
			g.lines = append(g.lines, renderLine(r, k, valueFor(r, k), false))
		}
		in.Files = append(in.Files, FileSpec{Path: B(p), Content: B(g.content(r, false))})
	}

	// the first file of the chain is sometimes a symbolic link (a ~/.layercake kept in a dotfiles checkout)
	if len(in.Files) > 0 && !in.Files[0].Dir && r.Chance(1, 5) {
		orig := in.Files[0]
		real := FileSpec{Path: B(string(orig.Path) + ".real"), Content: orig.Content}
		in.Files[0] = real
		in.Files = append(in.Files, FileSpec{Path: orig.Path, Link: real.Path})
	}
	// ---- switches and environment
	in.Home = B(T + "/home")
	in.Argv0 = B(T + "/usr/bin/layercake")
	switch head {
	case "switch":
		if n > 0 {
			in.SwConf = B(spell(r, chain[0].path))
		} else {
			in.SwConf = B(r.Pick([]string{T + "/conf/nosuch.conf", T + "/conf", "nosuch.conf"}))
			end = "missing"
		}
		if r.Chance(1, 3) {
			in.LayerConf = B(T + "/conf/lc.conf")
			decoy(T + "/conf/lc.conf")
		}
		if r.Chance(1, 3) {
			decoy(T + "/home/.layercake")
		}
	case "switchrel":
		if n > 0 {
			in.SwConf = B(r.Pick([]string{"f.conf", "./f.conf", "../cwd/f.conf"}))
		}
	case "layerconf":
		if n > 0 {
			in.LayerConf = B(spell(r, chain[0].path))
			if r.Chance(1, 8) { // relative to the working directory
				in.LayerConf = B("../" + strings.TrimPrefix(chain[0].path, T+"/"))
			}
		} else {
			in.LayerConf = B(r.Pick([]string{T + "/conf/nosuch.conf", T + "/conf"}))
		}
		if r.Chance(1, 2) {
			decoy(T + "/home/.layercake")
		}
		if r.Chance(1, 3) {
			decoy(T + "/usr/etc/layercake.conf")
		}
	case "home":
		if r.Chance(1, 3) { // LAYERCONF names something that is not a file: falls through to HOME
			in.LayerConf = B(r.Pick([]string{T + "/conf/nosuch.conf", T + "/conf", T + "/home/.layercake/"}))
		}
		if r.Chance(1, 2) {
			decoy(T + "/usr/etc/layercake.conf")
		}
		if r.Chance(1, 8) {
			in.Home = B(r.Pick([]string{T + "/home/", "../home", T + "/cwd/../home"}))
		}
	case "exe":
		switch r.Intn(4) {
		case 0:
			in.Home = ""
		case 1:
			in.Home = B(T + "/d") // no .layercake there
		}
		if r.Chance(1, 4) {
			in.LayerConf = B(T + "/conf/nosuch.conf")
		}
	case "none":
		if r.Chance(1, 2) {
			in.Home = ""
		}
	}
	if r.Chance(1, 10) {
		in.Argv0 = B(r.Pick([]string{"layercake", "./layercake", "bin/layercake", T + "/usr/bin/../bin/layercake", "/layercake",
			T + "/usr/bin//layercake"}))
		if r.Chance(1, 2) {
			decoy(T + "/cwd/etc/layercake.conf")
		}
	}
	if r.Chance(1, 3) {
		in.SwBase = B(absDir(r))
		if r.Chance(1, 10) {
			in.SwBase = B(r.Pick([]string{"rel/base", ".", "../b"}))
		}
	}
	if r.Chance(1, 3) {
		in.LayerRoot = B(absDir(r))
		if r.Chance(1, 10) {
			in.LayerRoot = B(r.Pick([]string{"rel/root", "./r"}))
		}
	}
	for _, d := range dirs {
		in.Files = append(in.Files, FileSpec{Path: B(d), Dir: true})
	}
	in.Bin = r.Chance(1, 5)
	in.Note = fmt.Sprintf("chain=%d head=%s end=%s", n, head, end)
	return in
}

// Chains whose files read so far (with -basepath / LAYERROOT if given) already supply every
// setting, followed by the interesting thing: a loop back to a visited file, a file with an
// unknown key, a missing or unreadable file, or a harmless further file.  The rest of the chain
// must be followed although it cannot change any value.
func genCompleteCase(r *rng.R) Input {
	var in Input
	in.Cwd = B(T + "/cwd")
	in.Home = B(T + "/home")
	in.Argv0 = B(T + "/usr/bin/layercake")
	dirs := []string{T + "/cwd", T + "/home", T + "/usr/bin", T + "/usr/etc", T + "/conf", T + "/d"}
	pool := []string{T + "/conf/a.conf", T + "/conf/b.conf", T + "/c.conf", T + "/d/e.conf", T + "/conf/g.conf"}
	for i := len(pool) - 1; i > 0; i-- {
		j := r.Intn(i + 1)
		pool[i], pool[j] = pool[j], pool[i]
	}
	np := 1 + r.Intn(3) // files of the complete prefix
	keys := append([]string{}, keyNames...)
	for i := len(keys) - 1; i > 0; i-- {
		j := r.Intn(i + 1)
		keys[i], keys[j] = keys[j], keys[i]
	}
	// where does the base path come from?
	baseFrom := r.Pick([]string{"file", "file", "switch", "env", "both"})
	switch baseFrom {
	case "switch":
		in.SwBase = B(absDir(r))
	case "env":
		in.LayerRoot = B(absDir(r))
	case "both":
		in.SwBase = B(absDir(r))
		in.LayerRoot = B(absDir(r))
	}
	prefix := make([]*fileGen, np)
	for i := range prefix {
		prefix[i] = &fileGen{path: pool[i]}
	}
	head := r.Pick([]string{"switch", "switch", "layerconf", "home", "exe"})
	switch head {
	case "home":
		prefix[0].path = T + "/home/.layercake"
	case "exe":
		prefix[0].path = T + "/usr/etc/layercake.conf"
		in.Home = ""
	}
	goodVal := func(k string) string {
		switch k {
		case "BASEPATH":
			return absDir(r)
		case "CHROOT_EXEC":
			return r.Pick([]string{"/usr/sbin/chroot", "/bin/../sbin/chroot", "/usr/bin/chroot"})
		case "LAYERS", "EXPORTS":
			if r.Bool() {
				return relDir(r)
			}
			return absDir(r)
		}
		return plainVal(r)
	}
	for i, k := range keys {
		if k == "BASEPATH" && baseFrom != "file" && r.Chance(2, 3) {
			continue // supplied by the switch / the environment only
		}
		f := prefix[i%np]
		f.lines = append(f.lines, renderLine(r, k, goodVal(k), false))
		if r.Chance(1, 6) { // the same key again later in the prefix: first value wins
			g := prefix[r.Intn(np)]
			if g != f {
				g.lines = append(g.lines, renderLine(r, k, goodVal(k), false))
			}
		}
	}
	addLink := func(f *fileGen, link string) {
		pos := r.Intn(len(f.lines) + 1)
		l := renderLine(r, "CONFIGFILE", link, false)
		f.lines = append(f.lines[:pos:pos], append([]string{l}, f.lines[pos:]...)...)
	}
	for i := 0; i < np-1; i++ {
		addLink(prefix[i], spell(r, prefix[i+1].path))
	}
	files := append([]*fileGen{}, prefix...)
	last := prefix[np-1]
	tail := r.Pick([]string{"loop", "loop", "self", "unknown", "unknown", "missing", "directory", "fine", "fine-then-loop",
		"fine-then-unknown", "none"})
	extra := func(lines ...string) *fileGen {
		g := &fileGen{path: pool[np+len(files)-len(prefix)], lines: lines}
		files = append(files, g)
		return g
	}
	unknownLine := func() string {
		return r.Pick([]string{"NOSUCHKEY = 1", "NOSUCHKEY =", "garbage line here", "[section]", "LAYER = l", "KK = 1", "= value"})
	}
	switch tail {
	case "loop":
		addLink(last, spell(r, prefix[r.Intn(np)].path))
	case "self":
		addLink(last, spell(r, last.path))
	case "unknown":
		g := extra(unknownLine())
		if r.Bool() {
			g.lines = append([]string{renderLine(r, "BUILDROOT", "later", false)}, g.lines...)
		}
		addLink(last, spell(r, g.path))
	case "missing":
		addLink(last, r.Pick([]string{T + "/conf/nosuch.conf", "/nonexistent/x.conf", T + "/conf/a.conf/", "nosuch-relative.conf"}))
	case "directory":
		addLink(last, r.Pick([]string{T + "/conf", T + "/d/"}))
	case "fine":
		g := extra(renderLine(r, "BUILDROOT", "later", false), renderLine(r, "BASEPATH", "/later/base", false))
		addLink(last, spell(r, g.path))
	case "fine-then-loop":
		g := extra("# nothing new here")
		addLink(last, spell(r, g.path))
		addLink(g, spell(r, files[r.Intn(len(files))].path))
	case "fine-then-unknown":
		g := extra(renderLine(r, "EXPORTS", "/later/exp", false))
		addLink(last, spell(r, g.path))
		h := extra(unknownLine())
		addLink(g, spell(r, h.path))
	}
	for _, f := range files {
		in.Files = append(in.Files, FileSpec{Path: B(f.path), Content: B(f.content(r, false))})
	}
	switch head {
	case "switch":
		in.SwConf = B(spell(r, prefix[0].path))
	case "layerconf":
		in.LayerConf = B(spell(r, prefix[0].path))
	}
	for _, d := range dirs {
		in.Files = append(in.Files, FileSpec{Path: B(d), Dir: true})
	}
	in.Bin = r.Chance(1, 4)
	in.Note = fmt.Sprintf("chain=%d head=%s end=complete-then-%s", len(files), head, tail)
	return in
}

func Generate(r *rng.R, tier string, n int, emit func(*common.Case)) {
	defer cleanupRoot()
	for i := 0; i < n; i++ {
		cr := r.Split()
		sub := cr.U64()
		cr = rng.New(sub)
		var in Input
		if i%8 == 3 {
			in = genCompleteCase(cr)
		} else {
			in = genCase(cr, i%5 == 4)
		}
		if rng.New(sub^0x5e9a7a7e).Chance(1, 6) {
			in.SeparateFS = true
		}
		c := Run(in)
		c.Sub = sub
		emit(c)
	}
}

// ------------------------------------------------------------------ running the implementation

var rootDir string

func root() string {
	if rootDir == "" {
		rootDir = fmt.Sprintf("/var/tmp/lcv18.%d", os.Getpid())
	}
	return rootDir
}

// privateMountNS: the driver started the harness under unshare -m (LCV_ISOLATED), so mounts made
// here are invisible elsewhere and vanish with the process
func privateMountNS() bool { return os.Getenv("LCV_ISOLATED") == "1" }

func cleanupRoot() {
	if rootDir != "" {
		os.RemoveAll(rootDir)
	}
}

type loadRes struct {
	cfg *config.ConfigType
	err error
	pan interface{}
}

func classify(err error) string {
	m := err.Error()
	switch {
	case strings.HasPrefix(m, "Config-file loop"):
		return "ELoop"
	case strings.HasPrefix(m, "Unrecognized setting"):
		return "EUnknown"
	case strings.HasPrefix(m, "No absolute path"):
		return "ENoAbs"
	}
	return "EIO"
}

func Run(in Input) (c *common.Case) {
	rt := root()
	os.RemoveAll(rt)
	defer os.RemoveAll(rt)
	sub := func(b B) string { return strings.ReplaceAll(string(b), T, rt) }
	desc := map[string]interface{}{"input": in, "root": rt}
	c = &common.Case{Desc: desc}
	fail := func(f string, a ...interface{}) *common.Case {
		panic(fmt.Sprintf("c18 harness: "+f, a...))
	}
	if err := os.MkdirAll(rt, 0755); err != nil {
		return fail("%v", err)
	}
	separateFS := false
	if in.SeparateFS && privateMountNS() {
		dirs := map[string]bool{}
		for _, f := range in.Files {
			if p := sub(f.Path); !f.Dir && len(f.Link) == 0 && strings.HasPrefix(p, rt+"/") && filepath.Dir(p) != rt {
				dirs[filepath.Dir(p)] = true
			}
		}
		var order []string
		for d := range dirs {
			order = append(order, d)
		}
		sort.Slice(order, func(i, j int) bool {
			return len(order[i]) < len(order[j]) || len(order[i]) == len(order[j]) && order[i] < order[j]
		})
		var mounted []string
		for _, d := range order {
			if os.MkdirAll(d, 0755) == nil && syscall.Mount("tmpfs", d, "tmpfs", 0, "") == nil {
				mounted = append(mounted, d)
			}
		}
		defer func() {
			for i := len(mounted) - 1; i >= 0; i-- {
				syscall.Unmount(mounted[i], syscall.MNT_DETACH)
			}
		}()
		separateFS = true
	}
	for _, f := range in.Files {
		p := sub(f.Path)
		if !strings.HasPrefix(p, rt+"/") {
			return fail("file outside the root: %s", p)
		}
		if f.Dir {
			if err := os.MkdirAll(p, 0755); err != nil {
				return fail("%v", err)
			}
			continue
		}
		if err := os.MkdirAll(filepath.Dir(p), 0755); err != nil {
			return fail("%v", err)
		}
		if len(f.Link) > 0 {
			if err := os.Symlink(sub(f.Link), p); err != nil {
				return fail("%v", err)
			}
			continue
		}
		if err := os.WriteFile(p, []byte(sub(f.Content)), 0644); err != nil {
			return fail("%v", err)
		}
	}
	cwd := sub(in.Cwd)
	if err := os.MkdirAll(cwd, 0755); err != nil {
		return fail("%v", err)
	}
	swConf, swBase := sub(in.SwConf), sub(in.SwBase)
	envv := map[string]string{"LAYERROOT": sub(in.LayerRoot), "LAYERCONF": sub(in.LayerConf), "HOME": sub(in.Home)}
	argv0 := sub(in.Argv0)

	// listing of the tree = the abstract file system
	type ent struct {
		path    string
		dir     bool
		content string
	}
	var ents []ent
	for p := filepath.Dir(rt); ; p = filepath.Dir(p) {
		ents = append(ents, ent{path: p, dir: true})
		if p == "/" {
			break
		}
	}
	filepath.Walk(rt, func(p string, info os.FileInfo, err error) error {
		if err != nil {
			panic(err)
		}
		if info.IsDir() {
			ents = append(ents, ent{path: p, dir: true})
		} else {
			data, err := os.ReadFile(p)
			if err != nil {
				panic(err)
			}
			ents = append(ents, ent{path: p, content: string(data)})
		}
		return nil
	})
	sort.Slice(ents, func(i, j int) bool { return ents[i].path < ents[j].path })

	// ---- in-process config.Load
	oldwd, _ := os.Getwd()
	oldArgs0 := os.Args[0]
	oldEnv := map[string]*string{}
	for k, v := range envv {
		if o, ok := os.LookupEnv(k); ok {
			oo := o
			oldEnv[k] = &oo
		} else {
			oldEnv[k] = nil
		}
		if v == "" {
			os.Unsetenv(k)
		} else {
			os.Setenv(k, v)
		}
	}
	if err := os.Chdir(cwd); err != nil {
		return fail("%v", err)
	}
	os.Args[0] = argv0
	ch := make(chan loadRes, 1)
	go func() {
		var res loadRes
		defer func() {
			if e := recover(); e != nil {
				res.pan = e
			}
			ch <- res
		}()
		res.cfg, res.err = config.Load(swConf, swBase)
	}()
	var obsTerm string
	var vals []string
	select {
	case res := <-ch:
		switch {
		case res.pan != nil:
			obsTerm = "OPanic"
			desc["obs"] = fmt.Sprintf("panic: %v", res.pan)
		case res.err != nil:
			cl := classify(res.err)
			obsTerm = "(OErr " + cl + ")"
			desc["obs"] = map[string]interface{}{"error": res.err.Error(), "class": cl}
		default:
			g := res.cfg
			vals = []string{g.Basepath, g.Layerdirs, g.LayerBuildRoot, g.LayerBinPkgdir, g.LayerGeneratedir, g.LayerOvfsWorkdir,
				g.LayerOvfsUpperdir, g.Exportdirs, g.ExportBinPkgdir, g.ExportGeneratedir, g.ChrootExec}
			obsTerm = "(OOk " + q.HxList(vals) + ")"
			desc["obs"] = map[string]interface{}{"config": common.Bs(vals)}
		}
	case <-time.After(10 * time.Second):
		obsTerm = "OTimeout"
		desc["obs"] = "timeout: config.Load did not return within 10 s"
	}
	os.Args[0] = oldArgs0
	os.Chdir(oldwd)
	for k, o := range oldEnv {
		if o == nil {
			os.Unsetenv(k)
		} else {
			os.Setenv(k, *o)
		}
	}

	// ---- the binary
	binTerm := q.None()
	binRun := false
	if in.Bin {
		if bt, bd := runBinary(argv0, cwd, swConf, swBase, envv); bt != "" {
			binTerm = q.Some(bt)
			binRun = true
			if m, ok := desc["obs"].(map[string]interface{}); ok {
				m["binary"] = bd
			} else {
				desc["binary"] = bd
			}
		}
	}

	fsTerms := make([]string, len(ents))
	for i, e := range ents {
		if e.dir {
			fsTerms[i] = q.Pair(q.Hx(e.path), "NDir")
		} else {
			fsTerms[i] = q.Pair(q.Hx(e.path), q.App("NFile", q.Hx(e.content)))
		}
	}
	envTerm := q.App("MkEnv", q.Hx(swConf), q.Hx(swBase), q.Hx(envv["LAYERROOT"]), q.Hx(envv["LAYERCONF"]), q.Hx(envv["HOME"]),
		q.Hx(argv0), q.Hx(cwd), q.List(fsTerms))
	c.Coq = q.App("C18.MkCase", envTerm, q.Bool(binRun), q.App("C18.MkObs", obsTerm, binTerm))

	// ---- bookkeeping
	raw, _ := json.Marshal(in)
	h := sha1.Sum(raw)
	c.Key = hex.EncodeToString(h[:])
	nfiles := 0
	anyBase := false
	for _, f := range in.Files {
		if !f.Dir {
			nfiles++
			if strings.Contains(strings.ToUpper(string(f.Content)), "BASEPATH") {
				anyBase = true
			}
		}
	}
	classes := []string{}
	if strings.HasPrefix(in.Note, "chain=") {
		classes = strings.Fields(in.Note)
	}
	if len(in.SwBase) > 0 {
		classes = append(classes, "sw-basepath")
	}
	if len(in.LayerRoot) > 0 {
		classes = append(classes, "LAYERROOT")
	}
	if len(in.SwConf) > 0 {
		classes = append(classes, "sw-config")
	}
	if len(in.LayerConf) > 0 {
		classes = append(classes, "LAYERCONF")
	}
	if in.Bin {
		classes = append(classes, "binary")
	}
	classes = append(classes, "obs="+strings.Fields(strings.Trim(obsTerm, "()"))[0])
	if separateFS {
		classes = append(classes, "separate-file-systems")
	}
	c.Classes = classes
	chainLen := 0
	fmt.Sscanf(in.Note, "chain=%d", &chainLen)
	c.Nontrivial = chainLen >= 2 || ((len(in.SwBase) > 0 || len(in.LayerRoot) > 0) && anyBase) ||
		(len(in.SwBase) > 0 && len(in.LayerRoot) > 0) || (len(in.SwConf) > 0 && len(in.LayerConf) > 0 && nfiles >= 2)
	return c
}

// `layercake [-config f] [-basepath b] status`: a configuration error, or the three directories as missing items
func runBinary(argv0, cwd, swConf, swBase string, envv map[string]string) (string, interface{}) {
	bin := filepath.Join(os.Getenv("LCV_RUN"), "layercake")
	if _, err := os.Stat(bin); err != nil {
		return "", nil
	}
	args := []string{argv0}
	if swConf != "" {
		args = append(args, "-config", swConf)
	}
	if swBase != "" {
		args = append(args, "-basepath", swBase)
	}
	args = append(args, "status")
	ctx, cancel := context.WithTimeout(context.Background(), 10*time.Second)
	defer cancel()
	cmd := exec.CommandContext(ctx, bin)
	cmd.Args = args
	cmd.Dir = cwd
	cmd.Env = []string{"PATH=/usr/bin:/bin"}
	for k, v := range envv {
		if v != "" {
			cmd.Env = append(cmd.Env, k+"="+v)
		}
	}
	var stderr, stdout bytes.Buffer
	cmd.Stderr = &stderr
	cmd.Stdout = &stdout
	err := cmd.Run()
	if ctx.Err() != nil {
		return "BOther", "timeout"
	}
	text := stderr.String()
	d := map[string]interface{}{"stderr": text, "stdout": stdout.String(), "err": fmt.Sprint(err)}
	if err == nil {
		return "BRunOK", d // the configuration loaded and the base directories exist: no names shown
	}
	if !strings.HasPrefix(text, "Missing item(s):\n") {
		return "BErr", d
	}
	var dirs []string
	for _, l := range strings.Split(text, "\n") {
		if strings.HasPrefix(l, "  base directory ") {
			dirs = append(dirs, strings.TrimPrefix(l, "  base directory "))
		}
	}
	if len(dirs) != 3 {
		return "BRunOK", d // the configuration loaded; some of them exist, or a value contains a newline
	}
	return q.App("BDirs", q.Hx(dirs[0]), q.Hx(dirs[1]), q.Hx(dirs[2])), d
}

func RunJSON(raw json.RawMessage) (*common.Case, error) {
	var in Input
	if err := json.Unmarshal(raw, &in); err != nil {
		return nil, err
	}
	defer cleanupRoot()
	return Run(in), nil
}
