package c19

import (
	"encoding/json"
	"fmt"
	"io"
	"os"
	"path"
	"path/filepath"
	"sort"
	"strconv"
	"strings"
	"syscall"

	"lcverif/common"
	q "lcverif/coqfmt"
	"lcverif/rng"

	"potano.layercake/config"
	"potano.layercake/fns"
	"potano.layercake/fs"
	"potano.layercake/manage"
)

func init() {
	common.Register("c19", common.Prop{
		Generate: func(r common.Rand, tier string, n int, emit func(*common.Case)) {
			Generate(rng.New(r.U64()), tier, n, emit)
		},
		Replay: RunJSON,
	})
}

func RunJSON(raw json.RawMessage) (*common.Case, error) {
	var in Input
	if err := json.Unmarshal(raw, &in); err != nil {
		return nil, err
	}
	return Run(in)
}

type rowObs struct {
	Prog  string   `json:"prog"`
	Pid   uint64   `json:"pid"`
	Mode  int      `json:"mode"`
	Cwd   string   `json:"cwd"`
	Files []string `json:"files"`
}

func rowTerm(r rowObs) string {
	return q.App("MkRow", q.Hx(r.Prog), q.N(r.Pid), q.N(uint64(r.Mode)), q.Hx(r.Cwd), q.HxList(r.Files))
}

// rows of DescribeUsers: [command, details] lines
func parseRows(lines [][]string) ([]rowObs, error) {
	var out []rowObs
	for _, l := range lines {
		if len(l) < 2 {
			return nil, fmtErr("short table line %q", l)
		}
		cmd, det := l[0], l[1]
		if cmd == "" {
			if !strings.HasPrefix(det, "open file: ") || len(out) == 0 {
				return nil, fmtErr("unexpected table line %q", l)
			}
			out[len(out)-1].Files = append(out[len(out)-1].Files, strings.TrimPrefix(det, "open file: "))
			continue
		}
		i := strings.LastIndexByte(cmd, '(')
		if i < 0 || !strings.HasSuffix(cmd, ")") {
			return nil, fmtErr("unexpected command cell %q", cmd)
		}
		pid, err := strconv.ParseUint(cmd[i+1:len(cmd)-1], 10, 64)
		if err != nil {
			return nil, fmtErr("unexpected command cell %q", cmd)
		}
		r := rowObs{Prog: cmd[:i], Pid: pid, Files: []string{}}
		switch {
		case strings.HasPrefix(det, "running in chroot; cwd="):
			r.Mode, r.Cwd = 1, strings.TrimPrefix(det, "running in chroot; cwd=")
		case strings.HasPrefix(det, "running in layer directory "):
			r.Mode, r.Cwd = 2, strings.TrimPrefix(det, "running in layer directory ")
		case det == "opened files/directories in layer":
			r.Mode = 3
		default:
			return nil, fmtErr("unexpected details cell %q", det)
		}
		out = append(out, r)
	}
	for i := range out {
		sort.Strings(out[i].Files)
	}
	return out, nil
}

func rowsTerm(rs []rowObs) string {
	ts := make([]string, len(rs))
	for i, r := range rs {
		ts[i] = rowTerm(r)
	}
	return q.List(ts)
}

type flagsObs struct {
	MountBusy, NonMountBusy, Chroot bool
}

type userObs struct {
	Pid    uint64 `json:"pid"`
	UsedAs uint   `json:"usedas"`
	Prog   string `json:"prog"`
	File   string `json:"file"`
}

func scanTerm(so scanOut) (string, interface{}) {
	if so.Panic {
		return "SPanic", "panic: " + so.Msg
	}
	if so.Err {
		return "SErr", "error: " + so.Msg
	}
	keys := []string{}
	for k := range so.Map {
		keys = append(keys, unhex(k))
	}
	sort.Strings(keys)
	items := make([]string, len(keys))
	desc := map[string][]userObs{}
	for i, k := range keys {
		us := so.Map[hexs(k)]
		ts := make([]string, len(us))
		for j, u := range us {
			ts[j] = q.App("MkUser", q.N(u.Pid), q.N(uint64(u.UsedAs)), q.Hx(unhex(u.Prog)), q.Hx(unhex(u.File)))
			desc[k] = append(desc[k], userObs{u.Pid, u.UsedAs, unhex(u.Prog), unhex(u.File)})
		}
		items[i] = q.Pair(q.Hx(k), q.List(ts))
	}
	return q.App("SOk", q.List(items)), desc
}

func cleanEnv() []string {
	return []string{"PATH=/usr/bin:/bin", "HOME=/nonexistent"}
}

// Run builds the layercake base directory and the /proc tree of one case, runs the code under
// test on it and renders input and observation as a Gallina term.
func Run(in Input) (c *common.Case, err error) {
	if MP == "" {
		return nil, fmtErr("not inside the private mount namespace")
	}
	if in.Live {
		return runLive(in)
	}
	base, fake, conf := MP+"/b", MP+"/p", MP+"/lc.conf"
	cleanBase()
	os.RemoveAll(fake)
	defer cleanBase()
	defer os.RemoveAll(fake)
	os.Unsetenv("LAYERROOT")
	os.Unsetenv("LAYERCONF")
	fs.MessageWriter = io.Discard

	cfg, err := setupBase(in, base, conf)
	if err != nil {
		return nil, err
	}
	if err := buildFakeProc(fake, realDir(cfg.Layerdirs), in.Procs); err != nil {
		return nil, fmtErr("fake /proc: %v", err)
	}
	snap, err := snapshot(fake)
	if err != nil {
		return nil, err
	}
	if err := syscall.Mount(fake, "/proc", "", syscall.MS_BIND, ""); err != nil {
		return nil, fmtErr("bind mount over /proc: %v", err)
	}
	defer syscall.Unmount("/proc", syscall.MNT_DETACH)

	return observe(in, cfg, conf, snap)
}

func cleanBase() {
	os.RemoveAll(MP + "/b")
	os.RemoveAll(MP + "/real")
}

// realDir: the directory as the kernel names it (second implementation: os/filepath, also
// what the repaired FindLayerUsers uses)
func realDir(d string) string {
	if r, err := filepath.EvalSymlinks(d); err == nil {
		return r
	}
	return d
}

// the configuration as the harness wrote it (set by setupBase)
var expected struct {
	layers string
	dirs   [3]string
}

func setupBase(in Input, base, conf string) (*config.ConfigType, error) {
	if in.BaseLink { // MP/b -> real/base: the configured path has a symbolic link in it
		if err := os.MkdirAll(MP+"/real/base", 0755); err != nil {
			return nil, err
		}
		if err := os.Symlink("real/base", base); err != nil {
			return nil, err
		}
	}
	text := fmt.Sprintf("BASEPATH = %s\nLAYERS = %s\nBUILDROOT = %s\nOVERFS_WORKDIR = %s\nOVERFS_UPPERDIR = %s\n",
		base, in.LayersName, in.Dirs[0], in.Dirs[1], in.Dirs[2])
	if err := os.WriteFile(conf, []byte(text), 0644); err != nil {
		return nil, err
	}
	cfg, err := config.Load(conf, "")
	if err != nil {
		return nil, fmtErr("config: %v", err)
	}
	// what the model is told about the configuration is what the harness wrote into the file, not
	// what config.Load made of it: a Load that resolves another directory then shows as a mismatch
	// between model and scan instead of moving both
	expected.layers = path.Join(base, in.LayersName)
	expected.dirs = [3]string{in.Dirs[0], in.Dirs[1], in.Dirs[2]}
	if err := manage.InitLayercakeBase(cfg); err != nil {
		return nil, fmtErr("init: %v", err)
	}
	ld, err := manage.FindLayers(cfg, &config.Opts{})
	if err != nil {
		return nil, fmtErr("FindLayers: %v", err)
	}
	for _, l := range in.Layers {
		if err := ld.AddLayer(l.Name, l.Base, ""); err != nil {
			return nil, fmtErr("AddLayer %s: %v", l.Name, err)
		}
	}
	for _, e := range in.Extra {
		if err := os.MkdirAll(filepath.Join(cfg.Layerdirs, e), 0755); err != nil {
			return nil, err
		}
	}
	return cfg, nil
}

func toModelFault(hit *site, snap []procSnap, errno string) (*faultM, error) {
	f := &faultM{Err: errnoTerm(errno)}
	switch hit.Site {
	case "topopen":
		f.Rid = "RTopOpen"
		return f, nil
	case "topreaddir":
		f.Rid = "RTopReaddir"
		return f, nil
	}
	f.Proc = indexOfProc(snap, hit.Proc)
	if f.Proc < 0 {
		return nil, fmtErr("fault on unknown /proc entry %q", hit.Proc)
	}
	switch hit.Site {
	case "lstat":
		f.Rid = "RLstat"
	case "exe":
		f.Rid = "RExe"
	case "exe2":
		f.Rid = "RExe2"
	case "cwd":
		f.Rid = "RCwd"
	case "root":
		f.Rid = "RRoot"
	case "fdstat":
		f.Rid = "RFdStat"
	case "fdopen":
		f.Rid = "RFdOpen"
	case "fdreaddir":
		f.Rid = "RFdReaddir"
	case "fdlstat", "fdlink":
		j := indexOfFd(snap[f.Proc], hit.Fd)
		if j < 0 {
			return nil, fmtErr("fault on unknown fd %q", hit.Fd)
		}
		if hit.Site == "fdlstat" {
			f.Rid = q.App("RFdLstat", q.Nat(j))
		} else {
			f.Rid = q.App("RFdLink", q.Nat(j))
		}
	default:
		return nil, fmtErr("unknown site %q", hit.Site)
	}
	return f, nil
}

func observe(in Input, cfg *config.ConfigType, conf string, snap []procSnap) (*common.Case, error) {
	desc := map[string]interface{}{"input": in, "layersdir": cfg.Layerdirs}
	exe := os.Getenv("LCV_C19_EXE")
	logfile := MP + "/strace.log"
	var fault *faultM
	var obsTerm string
	statusIdx := -1

	if in.Status != "" {
		for i, l := range in.Layers {
			if l.Name == in.Status {
				statusIdx = i
			}
		}
		if statusIdx < 0 {
			return nil, fmtErr("status of unknown layer %q", in.Status)
		}
		bin := filepath.Join(os.Getenv("LCV_RUN"), "layercake")
		argv := []string{bin, "-config", conf, "status", in.Status}
		tr, hit, err := traceWithFault(logfile, in.Fault, argv, cleanEnv())
		if err != nil {
			return nil, fmtErr("strace: %v", err)
		}
		if hit != nil {
			if fault, err = toModelFault(hit, snap, in.Fault.Errno); err != nil {
				return nil, err
			}
		}
		ok := tr.Exit == 0
		usage, rows := 0, []rowObs{}
		if ok {
			var err error
			usage, rows, err = parseStatus(string(tr.Stdout))
			if err != nil {
				return nil, err
			}
		}
		desc["obs"] = map[string]interface{}{"exit": tr.Exit, "usage": usage, "rows": rows, "stdout": string(tr.Stdout)}
		obsTerm = q.App("C19.OStatus", q.Bool(ok), q.N(uint64(usage)), rowsTerm(rows))
	} else {
		var so scanOut
		if in.Fault != nil {
			tr, hit, err := traceWithFault(logfile, in.Fault, []string{exe, "c19", "scan1", cfg.Layerdirs}, nil)
			if err != nil {
				return nil, fmtErr("strace: %v", err)
			}
			if err := json.Unmarshal(tr.Stdout, &so); err != nil {
				return nil, fmtErr("scan helper output %q: %v", tr.Stdout, err)
			}
			if hit != nil {
				if fault, err = toModelFault(hit, snap, in.Fault.Errno); err != nil {
					return nil, err
				}
			}
		} else {
			so = scanToOut(cfg.Layerdirs)
		}
		return finishInProcess(in, cfg, snap, fault, so)
	}
	return finishCase(in, cfg, snap, fault, statusIdx, obsTerm, desc), nil
}

// finishInProcess: busy flags and DescribeUsers rows for an FindLayerUsers result, then the case
func finishInProcess(in Input, cfg *config.ConfigType, snap []procSnap, fault *faultM, so scanOut) (*common.Case, error) {
	desc := map[string]interface{}{"input": in, "layersdir": cfg.Layerdirs}
	var obsTerm string
	{
		st, sdesc := scanTerm(so)
		flagsT, rowsT := q.Some(q.List(nil)), q.List(nil)
		od := map[string]interface{}{"scan": sdesc}
		if !so.Err && !so.Panic {
			inuse := fs.InUseLayerMap{}
			for k, us := range so.Map {
				l := make([]fs.InUseProc, len(us))
				for i, u := range us {
					l[i] = fs.InUseProc{Pid: uint(u.Pid), UsedAs: u.UsedAs, ProgName: unhex(u.Prog), File: unhex(u.File)}
				}
				inuse[unhex(k)] = l
			}
			fl, rows, panicked, err := classifyAndDescribe(in, cfg, inuse)
			if err != nil {
				return nil, err
			}
			od["flags"], od["rows"], od["classify_panic"] = fl, rows, panicked
			if panicked {
				flagsT = q.None()
			} else {
				ft := make([]string, len(fl))
				for i, f := range fl {
					ft[i] = q.App("MkFlags", q.Bool(f.MountBusy), q.Bool(f.NonMountBusy), q.Bool(f.Chroot))
				}
				flagsT = q.Some(q.List(ft))
			}
			rt := make([]string, len(rows))
			for i, r := range rows {
				rt[i] = rowsTerm(r)
			}
			rowsT = q.List(rt)
		}
		desc["obs"] = od
		obsTerm = q.App("C19.OProc", st, flagsT, rowsT)
	}

	return finishCase(in, cfg, snap, fault, -1, obsTerm, desc), nil
}

func finishCase(in Input, cfg *config.ConfigType, snap []procSnap, fault *faultM, statusIdx int, obsTerm string,
	desc map[string]interface{}) *common.Case {
	c := &common.Case{Desc: desc}
	// the input term
	pts := make([]string, len(snap))
	for i, p := range snap {
		pts[i] = procTerm(p)
	}
	fts := []string{}
	if fault != nil {
		fts = append(fts, fault.term())
		desc["fault_applied"] = fault
	}
	names := make([]string, len(in.Layers))
	for i, l := range in.Layers {
		names[i] = l.Name
	}
	stT := q.None()
	if statusIdx >= 0 {
		stT = q.Some(q.Nat(statusIdx))
	}
	c.Coq = q.App("C19.MkCase", q.Hx(expected.layers), q.Hx(realDir(expected.layers)),
		q.HxList([]string{expected.dirs[0], expected.dirs[1], expected.dirs[2]}),
		q.HxList(names), q.List(pts), q.List(fts), stT, obsTerm)
	classify(c, in, cfg, snap, fault)
	return c
}

func classifyAndDescribe(in Input, cfg *config.ConfigType, inuse fs.InUseLayerMap) (fl []flagsObs, rows [][]rowObs, panicked bool, err error) {
	ld, err := manage.FindLayers(cfg, &config.Opts{})
	if err != nil {
		return nil, nil, false, fmtErr("FindLayers: %v", err)
	}
	func() {
		defer func() {
			if e := recover(); e != nil {
				panicked = true
			}
		}()
		err = ld.ProbeAllLayerstate(inuse)
	}()
	if err != nil {
		return nil, nil, false, fmtErr("ProbeAllLayerstate: %v", err)
	}
	if panicked {
		return nil, nil, true, nil
	}
	for _, l := range in.Layers {
		li := ld.Layer(l.Name)
		if li == nil {
			return nil, nil, false, fmtErr("layer %s not found after setup", l.Name)
		}
		fl = append(fl, flagsObs{li.MountBusy, li.NonMountBusy, li.Chroot})
		tbl := fns.NewAdaptiveTable(" l    l")
		procs := append([]fs.InUseProc(nil), inuse[l.Name]...)
		ld.DescribeUsers(procs, tbl)
		rs, err := parseRows(tbl.VerifLines())
		if err != nil {
			return nil, nil, false, err
		}
		if rs == nil {
			rs = []rowObs{}
		}
		rows = append(rows, rs)
	}
	return fl, rows, false, nil
}

var usageClass = map[string]int{"active chroot": 1, "busy": 2, "overlain": 3, "busy; may be unmounted": 4, "idle": 5}

// parseStatus reads the "Usage:" line and the process table of `layercake status <layer>`
func parseStatus(out string) (usage int, rows []rowObs, err error) {
	lines := strings.Split(out, "\n")
	rows = []rowObs{}
	tblAt := -1
	for i, l := range lines {
		if strings.HasPrefix(l, "Usage: ") && usage == 0 {
			usage = usageClass[strings.TrimPrefix(l, "Usage: ")]
		}
		if l == "Processes active in this layer" {
			tblAt = i
		}
	}
	if usage == 0 {
		return 0, nil, fmtErr("no Usage line in status output %q", out)
	}
	if tblAt < 0 {
		return usage, rows, nil
	}
	if tblAt+2 >= len(lines) {
		return 0, nil, fmtErr("truncated process table %q", out)
	}
	hdr := lines[tblAt+1]
	col := strings.Index(hdr, "Details")
	if col < 5 {
		return 0, nil, fmtErr("unexpected table header %q", hdr)
	}
	var cells [][]string
	for _, l := range lines[tblAt+3:] {
		if l == "" {
			continue
		}
		r := []rune(l)
		if len(r) < col {
			return 0, nil, fmtErr("short table line %q", l)
		}
		cells = append(cells, []string{strings.TrimSpace(string(r[:col])), string(r[col:])})
	}
	rows, err = parseRows(cells)
	if rows == nil {
		rows = []rowObs{}
	}
	return usage, rows, err
}

// distinctness key, non-triviality and the input-distribution classes
func classify(c *common.Case, in Input, cfg *config.ConfigType, snap []procSnap, fault *faultM) {
	var key strings.Builder
	nLinks, nIn, nProc := 0, 0, 0
	long := false
	prefix := realDir(cfg.Layerdirs) + "/"
	for _, p := range snap {
		if !p.IsDir {
			continue
		}
		nProc++
		ts := []*string{p.Exe, p.Cwd, p.Root}
		for _, f := range p.Fds {
			ts = append(ts, f.Tgt)
		}
		fmt.Fprintf(&key, "|%s", p.Name)
		for _, t := range ts {
			if t == nil {
				key.WriteString(",-")
				continue
			}
			nLinks++
			if strings.HasPrefix(*t, prefix) {
				nIn++
			}
			if len(*t) >= 256 {
				long = true
			}
			fmt.Fprintf(&key, ",%s", hexs(*t))
		}
	}
	fmt.Fprintf(&key, "|layers=%v|dirs=%v|status=%s|link=%v", in.Layers, in.Dirs, in.Status, in.BaseLink)
	classes := []string{}
	if fault != nil {
		fmt.Fprintf(&key, "|fault=%d/%s/%s", fault.Proc, fault.Rid, fault.Err)
		rid := strings.Fields(strings.Trim(fault.Rid, "()"))[0]
		classes = append(classes, "fault", "fault-"+rid+"-"+fault.Err)
	} else if in.Fault != nil {
		classes = append(classes, "fault-not-applicable")
	}
	if in.Status != "" {
		classes = append(classes, "binary-status")
	} else {
		classes = append(classes, "in-process")
	}
	if nIn > 0 {
		classes = append(classes, "links-into-layers")
	}
	if long {
		classes = append(classes, "target>=256")
	}
	if in.BaseLink {
		classes = append(classes, "symlinked-base-path")
	}
	if in.Dirs != [3]string{"build", "overlayfs/workdir", "overlayfs/upperdir"} {
		classes = append(classes, "custom-dirs")
	}
	classes = append(classes, fmt.Sprintf("procs=%d", nProc), fmt.Sprintf("layers=%d", len(in.Layers)))
	c.Key = key.String()
	c.Nontrivial = nIn > 0 || fault != nil
	c.Classes = classes
}
