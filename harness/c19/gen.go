package c19

import (
	"fmt"
	"os"
	"strconv"
	"strings"

	"lcverif/common"
	"lcverif/rng"
)

var nameFamilies = [][]string{
	{"a", "ab", "abc", "a-b", "a_b"},
	{"base", "base2", "base-kde", "bas"},
	{"dev", "devel", "dev_1", "de"},
	{"gentoo", "gentoo-musl", "gentoo2"},
	{"x", "xy", "xyz"},
	{"é", "éa", "layer中", "layer中2"},
	{"build", "buildx", "overlayfs"},
	{"7", "77", "777"},
}

var dirSets = [][3]string{
	{"b", "w", "u"},
	{"root", "ovl/work", "ovl/upper"},
	{"build", "build.w", "build.u"},
	{"bld", "bld2/w", "bld2/u"},
	{"build", "overlayfs/workdir", "overlayfs/upper"},
	{"chroot/fs", "chroot/work", "chroot/upper"},
}

var defaultDirs = [3]string{"build", "overlayfs/workdir", "overlayfs/upperdir"}

var outsideTargets = []string{"/", "/usr/bin/bash", "/bin/sleep", "/tmp/x", "/dev/null", "/dev/pts/0", "pipe:[12345]",
	"socket:[99]", "anon_inode:[eventpoll]", "/memfd:x (deleted)", "/var/lib/layercake", "/usr/lib/python-exec/python3.11/emerge",
	"/home/user", "/var/tmp/portage/x (deleted)", "(unreachable)/build"}

var exeTargets = []string{"/usr/bin/bash", "/bin/sleep", "/usr/bin/python3.11", "/usr/lib/portage/python3.11/ebuild.sh",
	"/usr/bin/emerge (deleted)", "/sbin/init", "/usr/bin/my prog", "/usr/bin/x(1)", "/opt/tool/", "/usr/bin/tail"}

var subPaths = []string{"", "", "/usr", "/usr/bin/x", "/root", "/a/b/c/d/e", "/var/tmp/portage", "/etc/passwd", "/work", "/x y", "/."}

type genCtx struct {
	r      *rng.R
	layers []string
	dirs   [3]string
	plain  bool // status mode: no exotic bytes, short names
}

func lit(s string) *Tgt { return &Tgt{In: false, Path: common.B(s)} }
func in(s string) *Tgt  { return &Tgt{In: true, Path: common.B(s)} }

func (g *genCtx) layer() string { return g.layers[g.r.Intn(len(g.layers))] }

func (g *genCtx) longTail(min int) string {
	var b strings.Builder
	for b.Len() < min {
		b.WriteString("/" + g.r.Pick([]string{"usr", "lib64", "python3.11", "site-packages", "a-very-long-directory-name-indeed", "x", "share"}))
	}
	return b.String()
}

// a link target: mostly inside or next to a layer directory
func (g *genCtx) target() *Tgt {
	r := g.r
	L := g.layer()
	d := g.dirs[r.Intn(3)]
	switch k := r.Intn(100); {
	case k < 33: // inside a mount directory of a layer
		return in("/" + L + "/" + d + r.Pick(subPaths))
	case k < 43: // inside the layer, outside the mount directories
		return in("/" + L + r.Pick([]string{"", "/packages", "/generated/stage3.tar.xz", "/layerconfig", "/overlayfs", "/" + strings.Split(d, "/")[0] + "-old", "/"}))
	case k < 53: // names that merely start like a mount directory
		return in("/" + L + "/" + r.Pick([]string{d + "x", d + "~", d + "2/q", d + ".old/usr", d[:len(d)-1], d + " (deleted)", d + "/f (deleted)"}))
	case k < 65: // names that merely start like the layer
		alt := []string{L + "~removed/" + d + "/usr", L + "~removed", L + "x/" + d, L + " (deleted)", L + "-/" + d, L + "/../" + L + "x"}
		if len(L) > 1 {
			alt = append(alt, L[:len(L)-1]+"/"+d, L[:len(L)-1])
		}
		return in("/" + r.Pick(alt))
	case k < 70: // the layers directory itself and its neighbours
		return in(r.Pick([]string{"", "x/" + L + "/" + d, "~removed/" + L, "/", "//" + L, "/../layers/" + L}))
	case k < 75:
		if g.plain {
			return in("/" + L + "/" + d + "/usr")
		}
		switch r.Intn(3) {
		case 0: // target of 256 bytes or more inside a mount directory
			return in("/" + L + "/" + d + g.longTail(230+r.Intn(200)))
		case 1: // exactly around the 256 byte boundary (the layers directory is about 16 bytes long)
			base := "/" + L + "/" + d + "/"
			n := 256 - 16 - len(base) + r.Range(-3, 3)
			if n < 1 {
				n = 1
			}
			return in(base + strings.Repeat("p", n))
		default:
			return in("/" + L + "/packages" + g.longTail(250))
		}
	case k < 80:
		if g.plain {
			return in("/" + L + "/" + d + "/x y")
		}
		return in("/" + L + "/" + d + r.Pick([]string{"/sp ace", "/ta\tb", "/new\nline", "/\xff\xfe", "/é", "/back\\slash", "//double", "/trailing/"}))
	default:
		return lit(r.Pick(outsideTargets))
	}
}

func (g *genCtx) process(name string) ProcJ {
	r := g.r
	p := ProcJ{Name: name, Kind: "dir", Fd: "dir"}
	switch k := r.Intn(100); {
	case k < 8: // kernel thread or a process already gone: no exe
	case k < 20:
		p.Exe = g.target()
	default:
		p.Exe = lit(r.Pick(exeTargets))
	}
	if g.plain && p.Exe != nil && len(p.Exe.Path) > 60 {
		p.Exe = lit("/usr/bin/bash")
	}
	if !r.Chance(1, 12) {
		if r.Chance(1, 4) {
			p.Cwd = lit(r.Pick(outsideTargets))
		} else {
			p.Cwd = g.target()
		}
	}
	switch k := r.Intn(100); {
	case k < 8:
	case k < 60:
		p.Root = lit("/")
	case k < 80: // chrooted into a build root
		p.Root = in("/" + g.layer() + "/" + g.dirs[0])
	default:
		p.Root = g.target()
	}
	switch k := r.Intn(100); {
	case k < 8:
		p.Fd = "none"
	case k < 12:
		p.Fd = "file"
	default:
		n := r.Heavy(6)
		for i := 0; i < n; i++ {
			f := FdJ{Name: strconv.Itoa(i)}
			switch {
			case r.Chance(1, 25):
			case r.Chance(1, 2):
				f.Tgt = lit(r.Pick(outsideTargets))
			default:
				f.Tgt = g.target()
			}
			p.Fds = append(p.Fds, f)
		}
		if n > 1 && r.Chance(1, 5) { // the same file open twice
			p.Fds[n-1].Tgt = p.Fds[0].Tgt
		}
	}
	if p.Exe == nil && r.Chance(1, 2) { // a vanished process: nothing left
		p.Cwd, p.Root, p.Fd, p.Fds = nil, nil, "none", nil
	}
	return p
}

func genInput(r *rng.R, mode string) Input {
	g := &genCtx{r: r, plain: mode == "status"}
	inp := Input{LayersName: "layers", Dirs: defaultDirs}
	if r.Chance(1, 3) {
		inp.Dirs = dirSets[r.Intn(len(dirSets))]
	}
	if r.Chance(1, 8) {
		inp.LayersName = r.Pick([]string{"l", "layer-dirs", "sub/layers"})
	}
	inp.BaseLink = r.Chance(1, 8)
	g.dirs = inp.Dirs
	// layers: a family of names that are prefixes of one another, plus strangers
	fam := nameFamilies[r.Intn(len(nameFamilies))]
	n := 1 + r.Heavy(4)
	seen := map[string]bool{}
	for i := 0; i < n; i++ {
		var name string
		if i < len(fam) && r.Chance(3, 4) {
			name = fam[i]
		} else {
			f2 := nameFamilies[r.Intn(len(nameFamilies))]
			name = f2[r.Intn(len(f2))]
		}
		if !g.plain && r.Chance(1, 40) {
			name = "L" + strings.Repeat("long", 50+r.Intn(9)) + strconv.Itoa(i)
		}
		if seen[name] {
			continue
		}
		seen[name] = true
		base := ""
		if len(inp.Layers) > 0 && r.Chance(2, 3) {
			base = inp.Layers[r.Intn(len(inp.Layers))].Name
		}
		inp.Layers = append(inp.Layers, LayerJ{name, base})
		g.layers = append(g.layers, name)
	}
	for _, l := range g.layers {
		if r.Chance(1, 3) {
			inp.Extra = append(inp.Extra, l+"~removed/"+inp.Dirs[0])
		}
		if r.Chance(1, 10) && len(l) < 200 {
			inp.Extra = append(inp.Extra, l+"x/"+inp.Dirs[0])
		}
	}
	// processes
	np := 1 + r.Heavy(7)
	pids := map[string]bool{"self": true}
	for i := 0; i < np; i++ {
		var name string
		switch {
		case r.Chance(1, 30):
			name = "1"
		case r.Chance(1, 30):
			name = strconv.Itoa(4194304 - r.Intn(100))
		default:
			name = strconv.Itoa(2 + r.Intn(70000))
		}
		if pids[name] {
			continue
		}
		pids[name] = true
		inp.Procs = append(inp.Procs, g.process(name))
	}
	// entries of /proc that are not processes
	for _, e := range []struct {
		name, kind string
		num, den   int
	}{{"cpuinfo", "file", 1, 2}, {"sys", "dir", 1, 3}, {"12a", "dir", 1, 6}, {"thread-self", "link", 1, 4},
		{"321", "file", 1, 12}, {"654", "link", 1, 12}, {"-5", "dir", 1, 20}, {"٣", "dir", 1, 20}} {
		if r.Chance(e.num, e.den) && !pids[e.name] {
			pids[e.name] = true
			p := ProcJ{Name: e.name, Kind: e.kind}
			if e.kind == "dir" { // looks like a process in every respect but the name
				p = g.process(e.name)
			}
			inp.Procs = append(inp.Procs, p)
		}
	}
	// shuffle
	for j := len(inp.Procs) - 1; j > 0; j-- {
		m := r.Intn(j + 1)
		inp.Procs[j], inp.Procs[m] = inp.Procs[m], inp.Procs[j]
	}
	return inp
}

var faultSites = []string{"exe", "exe", "cwd", "root", "exe2", "fdstat", "fdopen", "fdopen", "fdreaddir", "fdreaddir", "fdreaddir",
	"fdlstat", "fdlink", "fdlink", "lstat", "lstat", "topopen", "topreaddir"}

func genFault(r *rng.R, inp Input) *FaultJ {
	var cands []ProcJ
	for _, p := range inp.Procs {
		if p.Kind == "dir" {
			if _, err := strconv.ParseUint(p.Name, 10, 64); err == nil {
				cands = append(cands, p)
			}
		}
	}
	f := &FaultJ{Site: faultSites[r.Intn(len(faultSites))]}
	switch k := r.Intn(20); {
	case k < 10:
		f.Errno = "ENOENT"
	case k < 15:
		f.Errno = "EACCES"
	case k < 17:
		f.Errno = "ESRCH"
	default:
		f.Errno = r.Pick([]string{"EIO", "ENOMEM", "EINVAL", "ENAMETOOLONG"})
	}
	if f.Site == "topopen" || f.Site == "topreaddir" {
		f.Nth = r.Intn(2)
		return f
	}
	if len(cands) == 0 {
		return nil
	}
	if f.Site == "lstat" && r.Chance(1, 3) { // any entry of /proc is lstat-ed
		f.Proc = inp.Procs[r.Intn(len(inp.Procs))].Name
		return f
	}
	// prefer a process for which the call exists
	for try := 0; try < 6; try++ {
		p := cands[r.Intn(len(cands))]
		f.Proc = p.Name
		switch f.Site {
		case "fdlstat", "fdlink":
			if len(p.Fds) == 0 {
				continue
			}
			f.Fd = p.Fds[r.Intn(len(p.Fds))].Name
		case "fdreaddir":
			if p.Fd != "dir" {
				continue
			}
			f.Nth = r.Intn(2)
		case "fdopen":
			if p.Fd != "dir" {
				continue
			}
		}
		return f
	}
	return f
}

func Generate(r *rng.R, tier string, n int, emit func(*common.Case)) {
	for i := 0; i < n; i++ {
		cr := r.Split()
		sub := cr.U64()
		cr = rng.New(sub)
		mode := "proc"
		switch {
		case i%12 == 11:
			mode = "status"
		case i%20 == 19:
			mode = "live"
		}
		var inp Input
		if mode == "live" {
			inp = genLive(cr)
			if tier != "quick" {
				inp.Churn = 25
			}
		} else {
			inp = genInput(cr, mode)
			if mode == "status" {
				inp.Status = inp.Layers[cr.Intn(len(inp.Layers))].Name
				if cr.Chance(1, 2) {
					inp.Fault = genFault(cr, inp)
				}
			} else if i%3 == 2 {
				inp.Fault = genFault(cr, inp)
			}
		}
		c, err := Run(inp)
		if err != nil {
			fmt.Fprintf(os.Stderr, "lcv c19: case %d (subseed %d): %v\n", i, sub, err)
			os.Exit(2)
		}
		c.Sub = sub
		emit(c)
		if Hung >= 2 { // the code under test hangs: what has been seen is enough for a verdict
			fmt.Fprintf(os.Stderr, "lcv c19: %d scans did not return; stopping after %d cases\n", Hung, i+1)
			return
		}
	}
}
