package c19

import (
	"bufio"
	"encoding/json"
	"fmt"
	"io"
	"os"
	"os/exec"
	"path/filepath"
	"reflect"
	"strconv"
	"strings"
	"sync/atomic"
	"syscall"
	"time"

	"lcverif/common"
	"lcverif/rng"

	"potano.layercake/fs"
)

// Live mode: real helper processes on the real /proc.  The layercake base directory lives on
// the tmpfs that is private to this run's mount namespace, so no other process of the host can
// have a link into it; the snapshot handed to the model consists of every process that the
// harness itself (os.Readlink) finds with a link below the layers directory, plus the helpers.
// While the scan runs (several rounds) other processes are created and reaped continuously:
// every round must give the same answer, and never an error.

// LiveJ describes one helper process; paths are relative to the layers directory.
type LiveJ struct {
	ExeIn  string   `json:"exe_in"` // "": the harness binary itself; else where a copy of it is placed and executed
	Cwd    string   `json:"cwd"`    // "" = "/"
	Chroot string   `json:"chroot"` // "" = none; ExeIn and Cwd must then lie below it
	Open   []string `json:"open"`   // files held open (created if missing)
}

// helperMain: `lcv c19 helper <file>...` -- open the files, say ready, wait for stdin to close
func helperMain(args []string) {
	var keep []*os.File
	for _, a := range args {
		f, err := os.Open(a)
		if err != nil {
			fmt.Println("error:", err)
			os.Exit(1)
		}
		keep = append(keep, f)
	}
	fmt.Println("ready")
	io.Copy(io.Discard, os.Stdin)
	_ = keep
	os.Exit(0)
}

func copyFile(src, dst string) error {
	if _, err := os.Stat(dst); err == nil {
		return nil // placed for an earlier helper (and busy)
	}
	if err := os.MkdirAll(filepath.Dir(dst), 0755); err != nil {
		return err
	}
	in, err := os.Open(src)
	if err != nil {
		return err
	}
	defer in.Close()
	out, err := os.OpenFile(dst, os.O_CREATE|os.O_WRONLY|os.O_TRUNC, 0755)
	if err != nil {
		return err
	}
	if _, err := io.Copy(out, in); err != nil {
		out.Close()
		return err
	}
	return out.Close()
}

type helper struct {
	cmd   *exec.Cmd
	stdin io.WriteCloser
}

func (h *helper) stop() {
	h.stdin.Close()
	done := make(chan struct{})
	go func() { h.cmd.Wait(); close(done) }()
	select {
	case <-done:
	case <-time.After(5 * time.Second):
		h.cmd.Process.Kill()
		<-done
	}
}

func startHelper(self, layersdir string, l LiveJ) (*helper, error) {
	exe := self
	if l.ExeIn != "" {
		exe = layersdir + l.ExeIn
		if err := copyFile(self, exe); err != nil {
			return nil, err
		}
	}
	var opens []string
	for _, o := range l.Open {
		p := layersdir + o
		if err := os.MkdirAll(filepath.Dir(p), 0755); err != nil {
			return nil, err
		}
		if _, err := os.Stat(p); err != nil {
			if err := os.WriteFile(p, []byte("x"), 0644); err != nil {
				return nil, err
			}
		}
		opens = append(opens, p)
	}
	cwd := "/"
	if l.Cwd != "" {
		cwd = layersdir + l.Cwd
		if err := os.MkdirAll(cwd, 0755); err != nil {
			return nil, err
		}
	}
	attr := &syscall.SysProcAttr{}
	if l.Chroot != "" {
		root := layersdir + l.Chroot
		if err := os.MkdirAll(root, 0755); err != nil {
			return nil, err
		}
		attr.Chroot = root
		strip := func(p string) (string, error) {
			if p == root {
				return "/", nil
			}
			if !strings.HasPrefix(p, root+"/") {
				return "", fmtErr("live: %s is not below the chroot %s", p, root)
			}
			return p[len(root):], nil
		}
		var err error
		if exe, err = strip(exe); err != nil {
			return nil, err
		}
		if l.Cwd != "" {
			if cwd, err = strip(cwd); err != nil {
				return nil, err
			}
		}
		for i := range opens {
			if opens[i], err = strip(opens[i]); err != nil {
				return nil, err
			}
		}
	}
	cmd := &exec.Cmd{Path: exe, Args: append([]string{exe, "c19", "helper"}, opens...), Dir: cwd,
		Env: []string{nsEnv + "=1"}, SysProcAttr: attr}
	stdin, err := cmd.StdinPipe()
	if err != nil {
		return nil, err
	}
	stdout, err := cmd.StdoutPipe()
	if err != nil {
		return nil, err
	}
	if err := cmd.Start(); err != nil {
		return nil, fmtErr("live: start helper %s: %v", exe, err)
	}
	h := &helper{cmd, stdin}
	line, _ := bufio.NewReader(stdout).ReadString('\n')
	if strings.TrimSpace(line) != "ready" {
		h.stop()
		return nil, fmtErr("live: helper said %q", line)
	}
	return h, nil
}

// liveSnapshot reads the real /proc with the os package: the helpers and every other process
// with a link below the layers directory, in the directory order of /proc
func liveSnapshot(layersdir string, helpers map[string]bool) ([]procSnap, error) {
	names, err := dirOrder("/proc")
	if err != nil {
		return nil, err
	}
	var out []procSnap
	for _, n := range names {
		if _, err := strconv.ParseUint(n, 10, 64); err != nil {
			continue
		}
		d := "/proc/" + n
		ps := procSnap{Name: n, IsDir: true}
		ps.Exe, ps.Cwd, ps.Root = readlinkOpt(d+"/exe"), readlinkOpt(d+"/cwd"), readlinkOpt(d+"/root")
		related := helpers[n]
		for _, t := range []*string{ps.Exe, ps.Cwd, ps.Root} {
			if t != nil && strings.HasPrefix(*t, layersdir) {
				related = true
			}
		}
		if fns, err := dirOrder(d + "/fd"); err == nil {
			ps.HasFd = true
			for _, fn := range fns {
				t := readlinkOpt(d + "/fd/" + fn)
				if t == nil {
					continue // closed meanwhile (only this process's own descriptors do that)
				}
				if strings.HasPrefix(*t, layersdir) {
					related = true
				}
				ps.Fds = append(ps.Fds, fdSnap{fn, t})
			}
		}
		if related {
			out = append(out, ps)
		}
	}
	return out, nil
}

func runLive(in Input) (*common.Case, error) {
	base, conf := MP+"/b", MP+"/lc.conf"
	cleanBase()
	defer cleanBase()
	os.Unsetenv("LAYERROOT")
	os.Unsetenv("LAYERCONF")
	fs.MessageWriter = io.Discard
	cfg, err := setupBase(in, base, conf)
	if err != nil {
		return nil, err
	}
	self := os.Getenv("LCV_C19_EXE")
	var hs []*helper
	defer func() {
		for _, h := range hs {
			h.stop()
		}
	}()
	pids := map[string]bool{}
	for _, l := range in.LiveProcs {
		h, err := startHelper(self, cfg.Layerdirs, l)
		if err != nil {
			return nil, err
		}
		hs = append(hs, h)
		pids[strconv.Itoa(h.cmd.Process.Pid)] = true
	}
	snap, err := liveSnapshot(realDir(cfg.Layerdirs), pids)
	if err != nil {
		return nil, err
	}

	// processes come and go while the scan runs
	var stop int32
	churned := make(chan int, 1)
	go func() {
		n := 0
		for atomic.LoadInt32(&stop) == 0 && in.Churn > 0 {
			c := exec.Command(self, "c19", "helper")
			c.Env = []string{nsEnv + "=1"}
			c.Run() // stdin is /dev/null: says ready and exits at once
			n++
		}
		churned <- n
	}()
	rounds := 1 + in.Churn
	var so scanOut
	for i := 0; i < rounds; i++ {
		r := scanToOut(cfg.Layerdirs)
		if i == 0 {
			so = r
		} else if !reflect.DeepEqual(r, so) {
			if so.Err || so.Panic {
				break
			}
			so = r // a round that differs from the first: report that one
			break
		}
	}
	atomic.StoreInt32(&stop, 1)
	nChurn := <-churned

	c, err := finishInProcess(in, cfg, snap, nil, so)
	if err != nil {
		return nil, err
	}
	c.Desc["live"] = map[string]interface{}{"rounds": rounds, "processes_created_meanwhile": nChurn}
	b, _ := json.Marshal(in)
	c.Key = "live|" + string(b)
	c.Classes = append(c.Classes, "live-real-proc")
	return c, nil
}

func genLive(r *rng.R) Input {
	inp := Input{LayersName: "layers", Dirs: defaultDirs, Live: true, Churn: 4, BaseLink: r.Chance(1, 3)}
	fam := nameFamilies[r.Intn(3)]
	n := 1 + r.Intn(3)
	for i := 0; i < n; i++ {
		base := ""
		if i > 0 && r.Bool() {
			base = fam[0]
		}
		inp.Layers = append(inp.Layers, LayerJ{fam[i], base})
	}
	L := func() string { return inp.Layers[r.Intn(len(inp.Layers))].Name }
	inp.Extra = []string{fam[0] + "~removed/build"}
	np := 1 + r.Intn(4)
	for i := 0; i < np; i++ {
		var l LiveJ
		a := L()
		switch r.Intn(5) {
		case 0: // a shell in the build root
			l.Cwd = "/" + a + "/build" + r.Pick([]string{"", "/usr", "/var/tmp/portage"})
		case 1: // chrooted into the build root
			l.Chroot = "/" + a + "/build"
			l.ExeIn = l.Chroot + "/bin/helper"
			l.Cwd = l.Chroot + r.Pick([]string{"", "/root"})
		case 2: // executable and open files in the layer, outside the mount directories
			l.ExeIn = "/" + a + "/packages/helper"
			l.Open = []string{"/" + a + "/generated/stage.tar"}
		case 3: // in a removed layer and in a layer whose name extends a's
			l.Cwd = "/" + fam[0] + "~removed/build"
			l.Open = []string{"/" + a + "x/build/f"}
		default: // holds files of the overlay directories open
			l.Open = []string{"/" + a + "/overlayfs/upperdir/etc/f", "/" + a + "/overlayfs/workdir/work/g", "/" + a + "/build/etc/h"}
		}
		inp.LiveProcs = append(inp.LiveProcs, l)
	}
	return inp
}
