package c19

import (
	"lcverif/common"
	"lcverif/rng"
)

// live mode (real helper processes on the real /proc): see runLive
func genLive(r *rng.R) Input { return genInput(r, "proc") }

func runLive(in Input) (*common.Case, error) { return nil, fmtErr("live mode not built yet") }
