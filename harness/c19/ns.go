// Package c19: fake /proc trees (and live helper processes) -> fs.FindLayerUsers,
// manage.ProbeAllLayerstate, manage.DescribeUsers and the layercake binary (property C19).
//
// fs.FindLayerUsers opens the literal path "/proc", so the harness works inside a private
// mount namespace: `lcv c19 ...` re-executes itself with CLONE_NEWNS, mounts a tmpfs on a
// scratch mount point and bind-mounts a generated directory tree over /proc for each case.
package c19

import (
	"encoding/json"
	"fmt"
	"os"
	"os/exec"
	"runtime"
	"syscall"
	"time"

	"potano.layercake/fs"
)

const nsEnv = "LCV_C19_NS"

// MP is the scratch mount point (a tmpfs private to this run's mount namespace).
var MP string

func pickMP() string {
	for _, d := range []string{"/media", "/mnt"} {
		if st, err := os.Stat(d); err == nil && st.IsDir() {
			return d
		}
	}
	d := "/var/tmp/lcv-c19-mp"
	os.MkdirAll(d, 0755)
	return d
}

type scanOut struct {
	Err   bool                  `json:"err"`
	Panic bool                  `json:"panic"`
	Msg   string                `json:"msg"`
	Map   map[string][]scanUser `json:"map"`
}
type scanUser struct {
	Pid    uint64 `json:"pid"`
	UsedAs uint   `json:"usedas"`
	Prog   string `json:"prog"` // hex
	File   string `json:"file"` // hex
}

// Hung counts scans that did not answer within the wall-clock limit (reported like a panic).
var Hung int

const scanLimit = 20 * time.Second

func scanToOut(layersdir string) scanOut {
	ch := make(chan scanOut, 1)
	go func() { ch <- scanNow(layersdir) }()
	select {
	case out := <-ch:
		return out
	case <-time.After(scanLimit):
		Hung++
		return scanOut{Panic: true, Msg: "no answer within " + scanLimit.String()}
	}
}

func scanNow(layersdir string) (out scanOut) {
	defer func() {
		if e := recover(); e != nil {
			out = scanOut{Panic: true, Msg: fmt.Sprint(e)}
		}
	}()
	m, err := fs.FindLayerUsers(layersdir)
	if err != nil {
		return scanOut{Err: true, Msg: err.Error()}
	}
	out.Map = map[string][]scanUser{}
	for k, us := range m {
		l := make([]scanUser, len(us))
		for i, u := range us {
			l[i] = scanUser{uint64(u.Pid), u.UsedAs, hexs(u.ProgName), hexs(u.File)}
		}
		out.Map[hexs(k)] = l
	}
	return out
}

func init() {
	if len(os.Args) < 3 || os.Args[1] != "c19" {
		return
	}
	if os.Args[2] == "scan1" {
		// helper run under strace: one scan, result as JSON.  The main goroutine is wired to
		// the main thread so that strace's per-thread `when=` counters are deterministic.
		runtime.LockOSThread()
		b, _ := json.Marshal(scanNow(os.Args[3]))
		os.Stdout.Write(b)
		os.Exit(0)
	}
	if os.Args[2] == "helper" {
		helperMain(os.Args[3:])
	}
	if os.Getenv(nsEnv) == "" {
		exe, err := os.Executable()
		if err != nil {
			fmt.Fprintln(os.Stderr, "lcv c19:", err)
			os.Exit(2)
		}
		cmd := exec.Command(exe, os.Args[1:]...)
		cmd.Stdin, cmd.Stdout, cmd.Stderr = os.Stdin, os.Stdout, os.Stderr
		cmd.Env = append(os.Environ(), nsEnv+"=1", "LCV_C19_EXE="+exe)
		cmd.SysProcAttr = &syscall.SysProcAttr{Unshareflags: syscall.CLONE_NEWNS}
		if err := cmd.Run(); err != nil {
			if ee, ok := err.(*exec.ExitError); ok {
				os.Exit(ee.ExitCode())
			}
			fmt.Fprintln(os.Stderr, "lcv c19: cannot enter a private mount namespace:", err)
			os.Exit(2)
		}
		os.Exit(0)
	}
	// inside the namespace
	if err := syscall.Mount("none", "/", "", syscall.MS_REC|syscall.MS_PRIVATE, ""); err != nil {
		fmt.Fprintln(os.Stderr, "lcv c19: make-rprivate:", err)
		os.Exit(2)
	}
	MP = pickMP()
	if err := syscall.Mount("tmpfs", MP, "tmpfs", 0, "mode=0755"); err != nil {
		fmt.Fprintln(os.Stderr, "lcv c19: tmpfs:", err)
		os.Exit(2)
	}
}
