package c19

import (
	"bytes"
	"context"
	"os"
	"os/exec"
	"regexp"
	"strconv"
	"strings"
	"time"
)

// one traced system call
type call struct {
	Tid      string
	Name     string
	Path     string // openat/readlinkat/newfstatat: the path argument
	Fd       int    // getdents64: the descriptor
	FdPath   string // getdents64: the path the descriptor was opened on
	Size     int    // readlinkat: buffer size
	Ret      int
	Injected bool
	Ord      int // ordinal among the calls of the same name by the same thread (1-based)
}

// a call recognised as one of the scan's call sites
type site struct {
	Site string
	Proc string
	Fd   string
	Nth  int
}

var lineRe = regexp.MustCompile(`^(\d+) +(\w+)\((.*)\) += +(-?\d+)(.*)$`)
var pathRe = regexp.MustCompile(`^AT_FDCWD, "((?:[^"\\]|\\.)*)"`)
var resumedRe = regexp.MustCompile(`^(\d+) +<\.\.\. (\w+) resumed>(.*)$`)
var sizeRe = regexp.MustCompile(`, (\d+)$`)

func parseTrace(log string) []call {
	var out []call
	unfinished := map[string]string{}
	ord := map[string]int{}
	fdPath := map[int]string{}
	for _, line := range strings.Split(log, "\n") {
		if i := strings.Index(line, " <unfinished ...>"); i >= 0 {
			sp := strings.IndexByte(line, ' ')
			if sp > 0 {
				unfinished[line[:sp]] = line[:i]
			}
			continue
		}
		if m := resumedRe.FindStringSubmatch(line); m != nil {
			if pre, ok := unfinished[m[1]]; ok {
				delete(unfinished, m[1])
				line = pre + m[3]
			} else {
				continue
			}
		}
		m := lineRe.FindStringSubmatch(line)
		if m == nil {
			continue
		}
		c := call{Tid: m[1], Name: m[2]}
		c.Ret, _ = strconv.Atoi(m[4])
		c.Injected = strings.Contains(m[5], "(INJECTED)")
		args := m[3]
		switch c.Name {
		case "openat", "readlinkat", "newfstatat":
			if pm := pathRe.FindStringSubmatch(args); pm != nil {
				c.Path = pm[1]
			}
			if c.Name == "readlinkat" {
				if sm := sizeRe.FindStringSubmatch(args); sm != nil {
					c.Size, _ = strconv.Atoi(sm[1])
				}
			}
			if c.Name == "openat" && c.Ret >= 0 {
				fdPath[c.Ret] = c.Path
			}
		case "getdents64":
			if i := strings.IndexByte(args, ','); i > 0 {
				c.Fd, _ = strconv.Atoi(args[:i])
				c.FdPath = fdPath[c.Fd]
			}
		default:
			continue
		}
		k := c.Tid + " " + c.Name
		ord[k]++
		c.Ord = ord[k]
		out = append(out, c)
	}
	return out
}

// label every call that belongs to the scan of /proc
func labelSites(calls []call) []*site {
	out := make([]*site, len(calls))
	exeReads := map[string]int{}
	dents := map[string]int{}
	for i, c := range calls {
		p := c.Path
		if c.Name == "getdents64" {
			p = c.FdPath
		}
		if p != "/proc" && !strings.HasPrefix(p, "/proc/") {
			continue
		}
		parts := strings.Split(strings.TrimPrefix(p, "/proc"), "/") // "", name, sub, fdname
		parts = parts[1:]
		switch c.Name {
		case "openat":
			if len(parts) == 0 {
				out[i] = &site{Site: "topopen"}
			} else if len(parts) == 2 && parts[1] == "fd" {
				out[i] = &site{Site: "fdopen", Proc: parts[0]}
			}
		case "getdents64":
			if len(parts) == 0 {
				out[i] = &site{Site: "topreaddir", Nth: dents[p]}
			} else if len(parts) == 2 && parts[1] == "fd" {
				out[i] = &site{Site: "fdreaddir", Proc: parts[0], Nth: dents[p]}
			}
			dents[p]++
		case "newfstatat":
			switch {
			case len(parts) == 1:
				out[i] = &site{Site: "lstat", Proc: parts[0]}
			case len(parts) == 2 && parts[1] == "fd":
				out[i] = &site{Site: "fdstat", Proc: parts[0]}
			case len(parts) == 3 && parts[1] == "fd":
				out[i] = &site{Site: "fdlstat", Proc: parts[0], Fd: parts[2]}
			}
		case "readlinkat":
			switch {
			case len(parts) == 2 && parts[1] == "exe":
				if c.Size <= 256 {
					exeReads[parts[0]]++
				}
				if exeReads[parts[0]] <= 1 {
					out[i] = &site{Site: "exe", Proc: parts[0]}
				} else {
					out[i] = &site{Site: "exe2", Proc: parts[0]}
				}
			case len(parts) == 2 && (parts[1] == "cwd" || parts[1] == "root"):
				out[i] = &site{Site: parts[1], Proc: parts[0]}
			case len(parts) == 3 && parts[1] == "fd":
				out[i] = &site{Site: "fdlink", Proc: parts[0], Fd: parts[2]}
			}
		}
	}
	return out
}

func sysOfSite(s string) string {
	switch s {
	case "topopen", "fdopen":
		return "openat"
	case "topreaddir", "fdreaddir":
		return "getdents64"
	case "lstat", "fdstat", "fdlstat":
		return "newfstatat"
	}
	return "readlinkat"
}

type traced struct {
	Stdout []byte
	Exit   int
	Calls  []call
}

func runStrace(logfile string, inject string, argv []string, env []string) (*traced, error) {
	args := []string{"-f", "-s", "600", "-o", logfile, "-e", "trace=openat,readlinkat,getdents64,newfstatat"}
	if inject != "" {
		args = append(args, "-e", "inject="+inject)
	}
	args = append(args, argv...)
	ctx, cancel := context.WithTimeout(context.Background(), 40*time.Second)
	defer cancel()
	cmd := exec.CommandContext(ctx, "strace", args...)
	var so, se bytes.Buffer
	cmd.Stdout, cmd.Stderr = &so, &se
	if env != nil {
		cmd.Env = env
	}
	err := cmd.Run()
	t := &traced{Stdout: so.Bytes()}
	if ctx.Err() != nil { // no answer within the wall-clock limit: reported as a failed run
		exec.Command("pkill", "-9", "-f", strings.Join(argv, " ")).Run() // the tracee survives strace
		t.Exit = 124
		t.Stdout = []byte(`{"panic":true,"msg":"no answer within 40s"}`)
		Hung++
		return t, nil
	}
	if err != nil {
		if ee, ok := err.(*exec.ExitError); ok {
			t.Exit = ee.ExitCode()
		} else {
			return nil, err
		}
	}
	log, err := os.ReadFile(logfile)
	if err != nil {
		return nil, err
	}
	t.Calls = parseTrace(string(log))
	return t, nil
}

// traceWithFault runs argv once to find the call that is the wanted site, then again with that
// call failed.  It returns the run to be used as the observation and the site that really was
// failed (nil: nothing was injected -- the observation is then a run without faults).
func traceWithFault(logfile string, f *FaultJ, argv []string, env []string) (*traced, *site, error) {
	dry, err := runStrace(logfile, "", argv, env)
	if err != nil {
		return nil, nil, err
	}
	if f == nil {
		return dry, nil, nil
	}
	for attempt := 0; attempt < 3; attempt++ {
		labels := labelSites(dry.Calls)
		want := -1
		for i, s := range labels {
			if s != nil && s.Site == f.Site && (s.Proc == f.Proc || f.Site == "topopen" || f.Site == "topreaddir") &&
				s.Fd == f.Fd && (s.Nth == f.Nth || (f.Site != "topreaddir" && f.Site != "fdreaddir")) {
				want = i
				break
			}
		}
		if want < 0 {
			return dry, nil, nil // the scan never makes that call on this tree
		}
		c := dry.Calls[want]
		inj := c.Name + ":error=" + f.Errno + ":when=" + strconv.Itoa(c.Ord)
		run, err := runStrace(logfile, inj, argv, env)
		if err != nil {
			return nil, nil, err
		}
		rl := labelSites(run.Calls)
		var hit *site
		nInj := 0
		for i, rc := range run.Calls {
			if rc.Injected {
				nInj++
				hit = rl[i]
			}
		}
		if nInj == 0 {
			return run, nil, nil
		}
		if nInj == 1 && hit != nil && hit.Site == f.Site && hit.Proc == labels[want].Proc && hit.Fd == f.Fd {
			return run, hit, nil
		}
		// the injection landed elsewhere (the goroutine changed threads): try again
	}
	return dry, nil, nil
}
