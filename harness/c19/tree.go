package c19

import (
	"encoding/hex"
	"fmt"
	"os"
	"path/filepath"
	"syscall"

	"lcverif/common"
	q "lcverif/coqfmt"
)

type B = common.B

func hexs(s string) string { return hex.EncodeToString([]byte(s)) }
func unhex(s string) string {
	b, _ := hex.DecodeString(s)
	return string(b)
}

// Tgt is a link target; with In set, Path is appended to the layers directory (so "/a/build"
// is inside layer a, "" is the layers directory itself and "x/a" lies in a sibling directory
// whose name merely starts with the layers directory's name).
type Tgt struct {
	In   bool `json:"in"`
	Path B    `json:"path"`
}

type FdJ struct {
	Name string `json:"name"`
	Tgt  *Tgt   `json:"tgt"` // nil: a regular file instead of a symlink
}

type ProcJ struct {
	Name string `json:"name"`
	Kind string `json:"kind"` // "dir", "file", "link"
	Exe  *Tgt   `json:"exe"`
	Cwd  *Tgt   `json:"cwd"`
	Root *Tgt   `json:"root"`
	Fd   string `json:"fd"` // "dir", "none", "file"
	Fds  []FdJ  `json:"fds"`
}

type LayerJ struct {
	Name string `json:"name"`
	Base string `json:"base"`
}

// FaultJ: fail one system call of the scan (strace -e inject).
// Site: topopen topreaddir lstat exe cwd root exe2 fdstat fdopen fdreaddir fdlstat fdlink
type FaultJ struct {
	Site  string `json:"site"`
	Proc  string `json:"proc"`
	Fd    string `json:"fd"`
	Nth   int    `json:"nth"` // which getdents64 call on the directory (0: first)
	Errno string `json:"errno"`
}

type Input struct {
	LayersName string    `json:"layers_name"` // LAYERS, relative to the base path
	Dirs       [3]string `json:"dirs"`        // BUILDROOT, OVERFS_WORKDIR, OVERFS_UPPERDIR
	Layers     []LayerJ  `json:"layers"`
	Extra      []string  `json:"extra"` // further directories created below the layers directory
	Procs      []ProcJ   `json:"procs"`
	Fault      *FaultJ   `json:"fault"`
	BaseLink   bool      `json:"base_link"` // the configured base path reaches the base directory through a symbolic link
	Status     string    `json:"status"`    // non-empty: observe `layercake status <layer>`
	Live       bool      `json:"live"`   // real helper processes on the real /proc instead of a fake tree
	LiveProcs  []LiveJ   `json:"live_procs"`
	Churn      int       `json:"churn"` // live: further scan rounds while other processes are created and reaped
}

func (t *Tgt) str(layersdir string) string {
	if t.In {
		return layersdir + string(t.Path)
	}
	return string(t.Path)
}

// buildFakeProc writes the tree; every tree gets self/mountinfo (empty mount table) because
// fs.ProbeMounts reads /proc/self/mountinfo.
func buildFakeProc(root, layersdir string, procs []ProcJ) error {
	if err := os.MkdirAll(filepath.Join(root, "self"), 0755); err != nil {
		return err
	}
	if err := os.WriteFile(filepath.Join(root, "self", "mountinfo"), nil, 0644); err != nil {
		return err
	}
	for _, p := range procs {
		d := filepath.Join(root, p.Name)
		switch p.Kind {
		case "file":
			if err := os.WriteFile(d, nil, 0644); err != nil {
				return err
			}
			continue
		case "link":
			if err := os.Symlink("self", d); err != nil {
				return err
			}
			continue
		}
		if err := os.Mkdir(d, 0755); err != nil {
			return err
		}
		for _, l := range []struct {
			n string
			t *Tgt
		}{{"exe", p.Exe}, {"cwd", p.Cwd}, {"root", p.Root}} {
			if l.t != nil {
				if err := os.Symlink(l.t.str(layersdir), filepath.Join(d, l.n)); err != nil {
					return err
				}
			}
		}
		switch p.Fd {
		case "file":
			if err := os.WriteFile(filepath.Join(d, "fd"), nil, 0644); err != nil {
				return err
			}
		case "dir":
			if err := os.Mkdir(filepath.Join(d, "fd"), 0755); err != nil {
				return err
			}
			for _, f := range p.Fds {
				fp := filepath.Join(d, "fd", f.Name)
				if f.Tgt == nil {
					if err := os.WriteFile(fp, nil, 0644); err != nil {
						return err
					}
				} else if err := os.Symlink(f.Tgt.str(layersdir), fp); err != nil {
					return err
				}
			}
		}
	}
	return nil
}

// ---- the snapshot, read back from the tree with the os package (not with the code under test)

type fdSnap struct {
	Name string
	Tgt  *string
}
type procSnap struct {
	Name           string
	IsDir          bool
	Exe, Cwd, Root *string
	Fds            []fdSnap
	HasFd          bool
}

func dirOrder(dir string) ([]string, error) {
	fh, err := os.Open(dir)
	if err != nil {
		return nil, err
	}
	defer fh.Close()
	return fh.Readdirnames(-1)
}

func readlinkOpt(p string) *string {
	t, err := os.Readlink(p)
	if err != nil {
		return nil
	}
	return &t
}

func snapshot(root string) ([]procSnap, error) {
	names, err := dirOrder(root)
	if err != nil {
		return nil, err
	}
	out := make([]procSnap, 0, len(names))
	for _, n := range names {
		d := filepath.Join(root, n)
		var st syscall.Stat_t
		if err := syscall.Lstat(d, &st); err != nil {
			return nil, err
		}
		ps := procSnap{Name: n, IsDir: st.Mode&syscall.S_IFMT == syscall.S_IFDIR}
		if ps.IsDir {
			ps.Exe = readlinkOpt(filepath.Join(d, "exe"))
			ps.Cwd = readlinkOpt(filepath.Join(d, "cwd"))
			ps.Root = readlinkOpt(filepath.Join(d, "root"))
			fdd := filepath.Join(d, "fd")
			if fi, err := os.Stat(fdd); err == nil && fi.IsDir() {
				ps.HasFd = true
				fns, err := dirOrder(fdd)
				if err != nil {
					return nil, err
				}
				for _, fn := range fns {
					ps.Fds = append(ps.Fds, fdSnap{fn, readlinkOpt(filepath.Join(fdd, fn))})
				}
			}
		}
		out = append(out, ps)
	}
	return out, nil
}

func optHx(s *string) string {
	if s == nil {
		return q.None()
	}
	return q.Some(q.Hx(*s))
}

func procTerm(p procSnap) string {
	fds := q.None()
	if p.HasFd {
		items := make([]string, len(p.Fds))
		for i, f := range p.Fds {
			items[i] = q.App("MkFd", q.Hx(f.Name), optHx(f.Tgt))
		}
		fds = q.Some(q.List(items))
	}
	return q.App("MkProc", q.Hx(p.Name), q.Bool(p.IsDir), optHx(p.Exe), optHx(p.Cwd), optHx(p.Root), fds)
}

// ---- faults in model terms
type faultM struct {
	Proc int
	Rid  string // Gallina term
	Err  string // ENOENT ESRCH EACCES EOTHER
}

func (f faultM) term() string {
	return q.App("MkFault", q.Nat(f.Proc), f.Rid, f.Err)
}

func errnoTerm(name string) string {
	switch name {
	case "ENOENT", "ESRCH", "EACCES":
		return name
	}
	return "EOTHER"
}

func indexOfProc(snap []procSnap, name string) int {
	for i, p := range snap {
		if p.Name == name {
			return i
		}
	}
	return -1
}

func indexOfFd(p procSnap, name string) int {
	for i, f := range p.Fds {
		if f.Name == name {
			return i
		}
	}
	return -1
}

func fmtErr(f string, a ...interface{}) error { return fmt.Errorf("c19: "+f, a...) }
