// Package c20: two real layercake invocations (package manage, in-process) against ONE
// simulated kernel, stepped through the mount-table seams under a given schedule.
package c20

import (
	"encoding/json"
	"fmt"
	"io"
	"os"
	"strings"

	"lcverif/c12"
	"lcverif/common"
	q "lcverif/coqfmt"
	"lcverif/lcw"
	"lcverif/rng"
	"lcverif/simk"

	"potano.layercake/config"
	"potano.layercake/fs"
	"potano.layercake/manage"
)

type Input struct {
	World lcw.Input `json:"world"` // Cfg, FS, Kernel; Steps = serial preparation (mounts made before)
	A     lcw.Cmd   `json:"a"`
	B     lcw.Cmd   `json:"b"`
	Sched []bool    `json:"sched"`
}

type Call struct {
	Kind string // probe mount umount
	P    string
	OK   bool
}

type procState struct {
	calls     []Call
	ok        bool
	done      bool
	performed bool
	resume    chan struct{}
}

type scheduler struct {
	procs   [2]*procState
	cur     int
	arrived chan struct{}
}

// gate is called at every kernel interaction of the code under test
func (s *scheduler) gate() {
	p := s.procs[s.cur]
	if p.performed {
		s.arrived <- struct{}{}
		<-p.resume
	}
	p.performed = true
}

func runOne(cfg lcw.Cfg, cmd lcw.Cmd) error {
	c := lcw.ToConfig(cfg)
	opts := &config.Opts{}
	layers, err := manage.FindLayers(c, opts)
	if err != nil {
		return err
	}
	if err = layers.ProbeAllLayerstate(fs.InUseLayerMap{}); err != nil {
		return err
	}
	switch cmd.Kind {
	case "mount":
		return layers.Mount(cmd.A)
	case "umount":
		return layers.Unmount(cmd.A, cmd.Flag)
	}
	return fmt.Errorf("unsupported command %s", cmd.Kind)
}

func below(base string, k *simk.Kernel) []string {
	out := []string{}
	for _, m := range k.Tab {
		if m.MP == base || strings.HasPrefix(m.MP, base+"/") {
			out = append(out, m.MP)
		}
	}
	return out
}

func Run(in Input) (*common.Case, error) {
	os.RemoveAll(lcw.ScratchBase)
	os.MkdirAll(lcw.ScratchBase, 0755)
	defer os.RemoveAll(lcw.ScratchBase)
	lcw.MakeTree(in.World.FS)
	k := &simk.Kernel{Tab: append([]c12.KLine{}, in.World.Kernel.Tab...), NextID: in.World.Kernel.NextID, NextDev: in.World.Kernel.NextDev}
	fs.MessageWriter = io.Discard
	fs.WriteOK = fs.MakePretender(false, false, nil)
	fs.VerifHook = nil
	// serial preparation without scheduling
	fs.SyscallMount = func(src, tgt, fstype string, flags uintptr, data string) error { return k.Mount(src, tgt, fstype, flags, data) }
	fs.SyscallUnmount = func(tgt string, flags int) error { return k.Unmount(tgt, flags) }
	fs.GetAlternateProbeMountsCursor = func() fs.LineReader {
		return fs.NewTextInputCursor("mountinfo", strings.NewReader(k.Mountinfo()))
	}
	for _, st := range in.World.Steps {
		if err := runOne(in.World.Cfg, st.Cmd); err != nil {
			return nil, fmt.Errorf("preparation %v: %v", st.Cmd, err)
		}
	}
	fs0 := lcw.DumpTree(lcw.ScratchBase)
	k0 := below(in.World.Cfg.Base, k)

	s := &scheduler{arrived: make(chan struct{})}
	for i := range s.procs {
		s.procs[i] = &procState{resume: make(chan struct{})}
	}
	fs.SyscallMount = func(src, tgt, fstype string, flags uintptr, data string) error {
		s.gate()
		err := k.Mount(src, tgt, fstype, flags, data)
		p := s.procs[s.cur]
		p.calls = append(p.calls, Call{"mount", tgt, err == nil})
		return err
	}
	fs.SyscallUnmount = func(tgt string, flags int) error {
		s.gate()
		err := k.Unmount(tgt, flags)
		p := s.procs[s.cur]
		p.calls = append(p.calls, Call{"umount", tgt, err == nil})
		return err
	}
	fs.GetAlternateProbeMountsCursor = func() fs.LineReader {
		s.gate()
		p := s.procs[s.cur]
		p.calls = append(p.calls, Call{"probe", "", true})
		return fs.NewTextInputCursor("mountinfo", strings.NewReader(k.Mountinfo()))
	}
	cmds := [2]lcw.Cmd{in.A, in.B}
	for i := range s.procs {
		i := i
		go func() {
			p := s.procs[i]
			<-p.resume
			defer func() {
				if e := recover(); e != nil {
					p.ok = false
				}
				p.done = true
				s.arrived <- struct{}{}
			}()
			p.ok = runOne(in.World.Cfg, cmds[i]) == nil
		}()
	}
	sched := append([]bool{}, in.Sched...)
	for steps := 0; steps < 10000 && !(s.procs[0].done && s.procs[1].done); steps++ {
		pickA := !s.procs[0].done
		if len(sched) > 0 {
			if sched[0] {
				pickA = !s.procs[0].done
			} else {
				pickA = s.procs[1].done
			}
			sched = sched[1:]
		}
		i := 1
		if pickA {
			i = 0
		}
		s.cur = i
		s.procs[i].performed = false
		s.procs[i].resume <- struct{}{}
		<-s.arrived
	}
	final := below(in.World.Cfg.Base, k)
	// "... so one later umount fully unmounts the layer": afterwards, with nobody else around, one
	// umount -all by a fresh invocation; what is then still mounted below the base path is observed
	fs.SyscallMount = func(src, tgt, fstype string, flags uintptr, data string) error { return k.Mount(src, tgt, fstype, flags, data) }
	fs.SyscallUnmount = func(tgt string, flags int) error { return k.Unmount(tgt, flags) }
	fs.GetAlternateProbeMountsCursor = func() fs.LineReader {
		return fs.NewTextInputCursor("mountinfo", strings.NewReader(k.Mountinfo()))
	}
	laterErr := ""
	func() {
		defer func() {
			if e := recover(); e != nil {
				laterErr = fmt.Sprint("panic: ", e)
			}
		}()
		if err := runOne(in.World.Cfg, lcw.Cmd{Kind: "umount", Flag: true}); err != nil {
			laterErr = err.Error()
		}
	}()
	rest := below(in.World.Cfg.Base, k)

	callsTerm := func(cs []Call) string {
		out := make([]string, len(cs))
		for i, c := range cs {
			switch c.Kind {
			case "probe":
				out[i] = "KProbe"
			case "mount":
				out[i] = q.App("KMount", q.Hx(c.P))
			default:
				out[i] = q.App("KUmount", q.Hx(c.P), q.Bool(c.OK))
			}
		}
		return q.List(out)
	}
	sch := make([]string, len(in.Sched))
	for i, b := range in.Sched {
		sch[i] = q.Bool(b)
	}
	term := q.App("C20.MkCase", lcw.CfgTerm(in.World.Cfg), lcw.FsTerm(fs0), q.HxList(k0), lcw.CmdTerm(in.A), lcw.CmdTerm(in.B),
		q.List(sch), q.HxList(final), callsTerm(s.procs[0].calls), callsTerm(s.procs[1].calls),
		q.Bool(s.procs[0].ok), q.Bool(s.procs[1].ok), q.HxList(rest))
	raw, _ := json.Marshal(in)
	var inAny interface{}
	json.Unmarshal(raw, &inAny)
	serial := true
	// non-serial when both made a call before either finished: approximated by the schedule
	seenA, seenB, switches := false, false, 0
	last := -1
	for _, b := range in.Sched {
		v := 1
		if b {
			v = 0
		}
		if v != last {
			switches++
			last = v
		}
		if b {
			seenA = true
		} else {
			seenB = true
		}
	}
	if seenA && seenB && switches > 2 {
		serial = false
	}
	c := &common.Case{Coq: term, Key: string(raw),
		Nontrivial: !serial && len(s.procs[0].calls) > 1 && len(s.procs[1].calls) > 1,
		Classes:    []string{"cmds=" + in.A.Kind + "/" + in.B.Kind, fmt.Sprintf("final=%d", len(final))},
		Desc: map[string]interface{}{"input": inAny, "obs": map[string]interface{}{"k0": k0, "final": final,
			"calls_a": s.procs[0].calls, "calls_b": s.procs[1].calls, "ok_a": s.procs[0].ok, "ok_b": s.procs[1].ok,
			"after_later_umount_all": rest, "later_umount_error": laterErr}}}
	return c, nil
}

func gen(r *rng.R) Input {
	cfg := lcw.StdCfg("b")
	pool := []lcw.Imp{{Fstype: "bind", Source: cfg.Base + "/host/repos", Mount: "/var/db/repos"},
		{Fstype: "bind", Source: cfg.Base + "/host/distfiles", Mount: "/var/cache/distfiles"},
		{Fstype: "proc", Source: "/proc", Mount: "/proc"},
		{Fstype: "bind", Source: "$$base/packages", Mount: "/var/cache/binpkgs"},
		{Fstype: "bind", Source: "$$self/packages", Mount: "/mnt/own"}}
	names := []string{"base1", "mid", "leaf", "other"}
	n := 2 + r.Intn(3)
	apart := r.Chance(1, 5) // two invocations that share no mountpoint: different branches over a mounted base
	if apart {
		n = 4
	}
	ws := lcw.WorldSpec{BaseName: "b", HostLayout: "plain", HostDirs: []string{cfg.Base + "/host/repos", cfg.Base + "/host/distfiles"}}
	for i := 0; i < n; i++ {
		l := lcw.LayerSpec{Name: names[i], HasConfig: true, HasBuild: true, Minimal: true, Mountpoints: true, HasPackages: true}
		if i > 0 && (i < 3 || r.Chance(1, 2)) {
			l.Base = names[i-1]
			if i == 3 {
				l.Base = names[r.Intn(2)]
				if apart {
					l.Base = names[0]
				}
			}
			l.HasWork, l.HasUpper = true, true
		}
		k := 1 + r.Intn(3)
		perm := r.Intn(len(pool))
		for j := 0; j < k; j++ {
			l.Imports = append(l.Imports, pool[(perm+j)%len(pool)])
		}
		ws.Layers = append(ws.Layers, l)
	}
	in := Input{World: lcw.BuildInput(ws)}
	pick := func() string { return ws.Layers[r.Intn(len(ws.Layers))].Name }
	if r.Chance(1, 3) {
		in.World.Steps = append(in.World.Steps, lcw.StepIn{Cmd: lcw.Cmd{Kind: "mount", A: pick()}})
	}
	leaf := ws.Layers[len(ws.Layers)-1].Name
	if apart {
		ws.Layers[3].Base, ws.Layers[3].HasWork, ws.Layers[3].HasUpper = names[0], true, true
		in = Input{World: lcw.BuildInput(ws)}
		in.World.Steps = append(in.World.Steps, lcw.StepIn{Cmd: lcw.Cmd{Kind: "mount", A: names[0]}})
		in.A, in.B = lcw.Cmd{Kind: "mount", A: names[1+r.Intn(2)]}, lcw.Cmd{Kind: "mount", A: names[3]}
		for i := 8 + r.Intn(40); i > 0; i-- {
			in.Sched = append(in.Sched, r.Bool())
		}
		return in
	}
	switch r.Intn(4) {
	case 0, 1:
		t := pick()
		in.A, in.B = lcw.Cmd{Kind: "mount", A: t}, lcw.Cmd{Kind: "mount", A: t}
	case 2:
		in.A, in.B = lcw.Cmd{Kind: "mount", A: pick()}, lcw.Cmd{Kind: "mount", A: pick()}
	default:
		in.World.Steps = append(in.World.Steps, lcw.StepIn{Cmd: lcw.Cmd{Kind: "mount", A: leaf}})
		in.A, in.B = lcw.Cmd{Kind: "mount", A: leaf}, lcw.Cmd{Kind: "umount", A: leaf}
		if r.Chance(1, 2) {
			in.A, in.B = in.B, in.A
		}
	}
	switch r.Intn(4) {
	case 0: // serial
		for i := 0; i < 60; i++ {
			in.Sched = append(in.Sched, true)
		}
	case 1: // strict alternation (both read the table before either mounts)
		for i := 0; i < 60; i++ {
			in.Sched = append(in.Sched, i%2 == 0)
		}
	default:
		for i := 8 + r.Intn(40); i > 0; i-- {
			in.Sched = append(in.Sched, r.Bool())
		}
	}
	return in
}

func init() {
	common.Register("c20", common.Prop{
		Generate: func(rr common.Rand, tier string, n int, emit func(*common.Case)) {
			r := rng.New(rr.U64())
			for i := 0; i < n; i++ {
				sub := r.U64()
				c, err := Run(gen(rng.New(sub)))
				if err != nil {
					panic(err)
				}
				c.Sub = sub
				emit(c)
			}
		},
		Replay: func(raw json.RawMessage) (*common.Case, error) {
			var in Input
			if err := json.Unmarshal(raw, &in); err != nil {
				return nil, err
			}
			return Run(in)
		},
	})
}
