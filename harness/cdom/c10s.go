package cdom

import (
	"bytes"
	"context"
	"encoding/json"
	"fmt"
	"os"
	"os/exec"
	"path/filepath"
	"strings"
	"time"

	"lcverif/c07"
	"lcverif/common"
	q "lcverif/coqfmt"
	"lcverif/rng"
)

// stagemaker half of C10: -list / -generate with an output that fails.

type StageInput struct {
	Mode  int    `json:"mode"`  // 0..3 list system/installed/stage/stage -files, 4..7 generate none/gzip/bzip2/xz
	Sink  string `json:"sink"`  // none full closed limit badcomp
	Limit int    `json:"limit"` // bytes (multiple of 512) for sink=limit
	Tail  int    `json:"tail"`  // sink=limit: if > 0 the limit is this many 512-byte blocks before the end of the complete output
	Files int    `json:"files"` // package files in the build root
	Size  int    `json:"size"`  // size of each
	// the -o path of the run under test exists beforehand (sinks none, limit, badcomp): random bytes,
	// length = size of the complete output * PriorPermille / 1000 + PriorExtra
	HasPrior      bool `json:"hasprior,omitempty"`
	PriorPermille int  `json:"priorpermille,omitempty"`
	PriorExtra    int  `json:"priorextra,omitempty"`
}

const stageTmp = "/var/tmp/lcv/c10s"

func stageArgs(in StageInput, root, out string) []string {
	args := []string{"-root", root}
	switch in.Mode {
	case 0:
		args = append(args, "-list", "system")
	case 1:
		args = append(args, "-list", "installed")
	case 2:
		args = append(args, "-list", "stage")
	case 3:
		args = append(args, "-list", "stage", "-files")
	case 4:
		args = append(args, "-generate", "-compress", "none")
	case 5:
		args = append(args, "-generate", "-compress", "gzip")
	case 6:
		args = append(args, "-generate", "-compress", "bzip2")
	case 7:
		args = append(args, "-generate", "-compress", "xz")
	}
	if out != "" {
		args = append(args, "-o", out)
	}
	return args
}

func runStage(shell string, env []string) (exitOK bool, stderr string, err error) {
	ctx, cancel := context.WithTimeout(context.Background(), 60*time.Second)
	defer cancel()
	cmd := exec.CommandContext(ctx, "/bin/sh", "-c", shell)
	cmd.Dir = stageTmp
	cmd.Env = env
	var eb bytes.Buffer
	cmd.Stderr = &eb
	e := cmd.Run()
	if ctx.Err() != nil {
		return false, "timeout", nil
	}
	if e != nil {
		if _, ok := e.(*exec.ExitError); ok {
			return false, eb.String(), nil
		}
		return false, "", e
	}
	return true, eb.String(), nil
}

func shq(s string) string { return "'" + strings.ReplaceAll(s, "'", `'\''`) + "'" }

func runStageCase(in StageInput) (*common.Case, error) {
	os.RemoveAll(stageTmp)
	if err := os.MkdirAll(stageTmp, 0755); err != nil {
		return nil, err
	}
	defer os.RemoveAll(stageTmp)
	root := stageTmp + "/root"
	c07.BuildSkeleton(root)
	var contents []string
	for i := 0; i < in.Files; i++ {
		name := fmt.Sprintf("/usr/share/c10/file%03d", i)
		os.MkdirAll(filepath.Dir(root+name), 0755)
		os.WriteFile(root+name, bytes.Repeat([]byte{byte('a' + i%26)}, in.Size), 0644)
		contents = append(contents, "obj "+name+" d41d8cd98f00b204e9800998ecf8427e 1")
	}
	contents = append(contents, "dir /usr/share/c10")
	os.WriteFile(root+"/var/db/pkg/sys-apps/c07pkg-1.0/CONTENTS", []byte(strings.Join(contents, "\n")+"\n"), 0644)
	bin := c07.StagemakerPath()
	env := os.Environ()
	quote := func(args []string) string {
		out := shq(bin)
		for _, a := range args {
			out += " " + shq(a)
		}
		return out
	}
	// the complete output, without a fault
	ref := stageTmp + "/ref.out"
	ok, stderr, err := runStage(quote(stageArgs(in, root, ref)), env)
	if err != nil {
		return nil, err
	}
	if !ok {
		return nil, fmt.Errorf("reference run failed: %s", stderr)
	}
	st, err := os.Stat(ref)
	if err != nil {
		return nil, err
	}
	size := st.Size()
	var shell, sinkTerm string
	switch in.Sink {
	case "none":
		shell = quote(stageArgs(in, root, stageTmp+"/out"))
		sinkTerm = "SNone"
	case "full":
		shell = quote(stageArgs(in, root, "/dev/full"))
		sinkTerm = "SAlwaysFail"
	case "fullout": // no -o: the output goes to standard output, which is full
		shell = quote(stageArgs(in, root, "")) + " > /dev/full"
		sinkTerm = "SAlwaysFail"
	case "closed":
		shell = quote(stageArgs(in, root, "")) + " >&-"
		sinkTerm = "SAlwaysFail"
	case "limit":
		if in.Tail > 0 {
			in.Limit = (int(size)+511)/512*512 - 512*in.Tail
			if in.Limit < 0 {
				in.Limit = 0
			}
		}
		shell = fmt.Sprintf("ulimit -f %d; exec %s", in.Limit/512, quote(stageArgs(in, root, stageTmp+"/out")))
		sinkTerm = q.App("SLimit", q.N(uint64(in.Limit)))
	case "badcomp":
		bad := stageTmp + "/badbin"
		os.MkdirAll(bad, 0755)
		for _, n := range []string{"gzip", "bzip2", "xz"} {
			os.WriteFile(bad+"/"+n, []byte("#!/bin/sh\ncat >/dev/null\nexit 3\n"), 0755)
		}
		env = append(append([]string{}, env...), "PATH="+bad+":"+os.Getenv("PATH")) // the last PATH wins in exec.Cmd.Env
		shell = quote(stageArgs(in, root, stageTmp+"/out"))
		sinkTerm = "SBadCompressor"
	default:
		return nil, fmt.Errorf("unknown sink %s", in.Sink)
	}
	outPath := stageTmp + "/out"
	toFile := in.Sink == "none" || in.Sink == "limit" || in.Sink == "badcomp"
	priorTerm, priorLen := q.None(), -1
	if toFile && in.HasPrior {
		priorLen = stagePrior(outPath, in, size)
		priorTerm = q.Some(q.N(uint64(priorLen)))
	}
	exitOK, stderr2, err := runStage(shell, env)
	if err != nil {
		return nil, err
	}
	// the length of compressed output is no function of the input: device nodes and directories
	// that stagemaker synthesises carry the clock of the run, so the reference run and the run under
	// test may compress different bytes (seen: xz 3344 vs 3360).  The file-length observation is
	// made for the text lists and the uncompressed archive; compressed files are read back in full
	// by the C07 check (harness/c07/r5_outfile.go)
	lenTerm, outLen := q.None(), int64(-1)
	if toFile && in.Mode <= 4 {
		if st, e := os.Stat(outPath); e == nil && st.Mode().IsRegular() {
			outLen = st.Size()
			lenTerm = q.Some(q.N(uint64(outLen)))
		}
	}
	term := q.App("C10.CStage", q.App("C10.MkS", q.N(uint64(in.Mode)), sinkTerm, q.N(uint64(size)), priorTerm, q.Bool(exitOK), lenTerm))
	raw, _ := json.Marshal(in)
	var any interface{}
	json.Unmarshal(raw, &any)
	reached := in.Sink == "full" || in.Sink == "fullout" || in.Sink == "closed" || in.Sink == "badcomp" || (in.Sink == "limit" && int64(in.Limit) < size)
	classes := []string{"stagemaker", fmt.Sprintf("mode=%d", in.Mode), "sink=" + in.Sink}
	if priorLen >= 0 {
		classes = append(classes, "stagemaker-output-path-existed")
		if int64(priorLen) > size && exitOK {
			classes = append(classes, "stagemaker-output-path-held-longer-file")
			reached = true
		}
	}
	return &common.Case{Coq: term, Key: "stage:" + string(raw), Nontrivial: reached,
		Classes: classes,
		Desc: map[string]interface{}{"input": map[string]interface{}{"stage": any},
			"obs": map[string]interface{}{"size": size, "exit_ok": exitOK, "stderr": stderr2, "cmd": shell,
				"prior_len": priorLen, "output_file_len": outLen}}}, nil
}

func genStageInput(r *rng.R) StageInput {
	in := StageInput{Mode: r.Intn(8), Files: 1 + r.Intn(6), Size: 200 + r.Intn(6000)}
	// (a closed stdout is no reliable failing sink: the descriptor number is reused by the next open)
	sinks := []string{"full", "fullout", "fullout", "limit", "limit", "limit", "none"}
	if in.Mode >= 5 {
		sinks = append(sinks, "badcomp", "badcomp")
	}
	in.Sink = r.Pick(sinks)
	if in.Sink == "badcomp" && in.Mode < 5 {
		in.Sink = "full"
	}
	if in.Sink == "limit" {
		in.Limit = 512 * r.Intn(40) // 0 .. ~20 KB: below and above typical output sizes
		if in.Mode >= 5 {
			in.Limit = 512 * r.Intn(4)
		}
		if r.Chance(1, 2) { // the output fails only in its last blocks
			in.Tail = 1 + r.Intn(4)
		}
	}
	if in.Mode == 4 && r.Chance(1, 2) { // an archive of more than one 64 KiB buffer
		in.Files, in.Size = 6+r.Intn(6), 20000+r.Intn(30000)
	}
	genStagePrior(r, &in)
	return in
}
