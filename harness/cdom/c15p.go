package cdom

import (
	"encoding/json"
	"fmt"
	"os"
	"strings"

	"lcverif/common"
	q "lcverif/coqfmt"
	"lcverif/lcw"
	"lcverif/rk"
	"lcverif/rng"
)

// process-level C15 cases: the real binary on the real kernel (private mount namespace),
// -p at any position of the command line.

type Tok struct {
	Kind string `json:"kind"` // bool str word
	Name string `json:"name"`
	Val  string `json:"val"`
}

type ProcInput struct {
	Pre     []Tok  `json:"pre"`
	Cmd     string `json:"cmd"`
	Post    []Tok  `json:"post"`
	Mounted bool   `json:"mounted"` // the stack is mounted for real before the command
}

func renderToks(ts []Tok) []string {
	var out []string
	for _, t := range ts {
		switch t.Kind {
		case "bool":
			out = append(out, "-"+t.Name)
		case "str":
			out = append(out, "-"+t.Name, t.Val)
		default:
			out = append(out, t.Name)
		}
	}
	return out
}

func tokTerm(t Tok) string {
	switch t.Kind {
	case "bool":
		return q.App("TBool", q.Hx(t.Name))
	case "str":
		return q.App("TStr", q.Hx(t.Name), q.Hx(t.Val))
	}
	return q.App("TWord", q.Hx(t.Name))
}
func toksTerm(ts []Tok) string {
	out := make([]string, len(ts))
	for i, t := range ts {
		out[i] = tokTerm(t)
	}
	return q.List(out)
}

// the small world every process-level case starts from
func procWorld() lcw.Input {
	cfg := lcw.StdCfg("b")
	imports := []lcw.Imp{{Fstype: "rbind", Source: "/dev", Mount: "/dev"}, {Fstype: "proc", Source: "/proc", Mount: "/proc"},
		{Fstype: "rbind", Source: cfg.Base + "/host/repos", Mount: "/var/db/repos"},
		{Fstype: "rbind", Source: "$$base/packages", Mount: "/var/cache/binpkgs"}}
	ws := lcw.WorldSpec{BaseName: "b", HostLayout: "plain", HostDirs: []string{cfg.Base + "/host/repos"},
		Layers: []lcw.LayerSpec{
			{Name: "base1", HasConfig: true, HasBuild: true, Minimal: true, Mountpoints: true, Imports: imports, HasPackages: true},
			{Name: "der1", Base: "base1", HasConfig: true, HasBuild: true, Minimal: true, Mountpoints: true, HasWork: true,
				HasUpper: true, Imports: imports, HasGen: true},
			{Name: "spare", HasConfig: true, HasBuild: true, Minimal: true, Mountpoints: true, Imports: imports[:2]},
		}}
	return lcw.BuildInput(ws)
}

func genProcInput(r *rng.R) ProcInput {
	var p ProcInput
	sw := func() Tok { return Tok{Kind: "bool", Name: r.Pick([]string{"v", "debug", "force", "debug"})} }
	type shape struct {
		cmd     string
		args    []string
		mounted bool
		locals  []Tok
	}
	shapes := []shape{
		{"add", []string{"newl", "base1"}, false, []Tok{{Kind: "str", Name: "configfile", Val: "default_layerconfig.skel"}}},
		{"add", []string{"newb"}, false, nil},
		{"remove", []string{"spare"}, false, []Tok{{Kind: "bool", Name: "files"}}},
		{"rename", []string{"spare", "spare2"}, false, nil},
		{"rebase", []string{"spare", "base1"}, false, nil},
		{"mkdirs", []string{"spare"}, false, nil},
		{"mount", []string{"der1"}, false, nil},
		{"mount", []string{"spare"}, true, nil},
		{"umount", []string{"der1"}, true, nil},
		{"umount", nil, true, []Tok{{Kind: "bool", Name: "all"}}},
		{"unmount", nil, true, []Tok{{Kind: "bool", Name: "all"}}},
		{"shake", nil, true, nil},
		{"init", nil, false, nil},
		{"list", nil, true, nil},
	}
	sh := shapes[r.Intn(len(shapes))]
	p.Cmd, p.Mounted = sh.cmd, sh.mounted
	for k := r.Intn(3); k > 0; k-- {
		p.Pre = append(p.Pre, sw())
	}
	var post []Tok
	for _, a := range sh.args {
		for k := r.Intn(2); k > 0; k-- {
			post = append(post, sw())
		}
		post = append(post, Tok{Kind: "word", Name: a})
	}
	for k := r.Intn(2); k > 0; k-- {
		post = append(post, sw())
	}
	for _, l := range sh.locals {
		if r.Chance(2, 3) {
			i := r.Intn(len(post) + 1)
			post = append(post[:i:i], append([]Tok{l}, post[i:]...)...)
		}
	}
	p.Post = post
	// -p at a random position (3 cases in 4), mostly together with -debug so that the installed
	// pretender is visible in the output
	if r.Chance(3, 4) {
		pt := Tok{Kind: "bool", Name: "p"}
		if r.Chance(1, 3) {
			i := r.Intn(len(p.Pre) + 1)
			p.Pre = append(p.Pre[:i:i], append([]Tok{pt}, p.Pre[i:]...)...)
		} else {
			i := r.Intn(len(p.Post) + 1)
			p.Post = append(p.Post[:i:i], append([]Tok{pt}, p.Post[i:]...)...)
		}
	}
	if r.Chance(3, 4) {
		p.Pre = append(p.Pre, Tok{Kind: "bool", Name: "debug"})
	}
	return p
}

func runProc(p ProcInput) (*common.Case, error) {
	in := procWorld()
	argv := append(append(renderToks(p.Pre), p.Cmd), renderToks(p.Post)...)
	req := rk.Request{In: in, Bin: os.Getenv("LCV_RUN") + "/layercake"}
	if p.Cmd == "init" {
		req.In.FS = req.In.FS[:1]
	} else if p.Mounted {
		req.Steps = append(req.Steps, rk.Step{Argv: []string{"mount", "der1"}})
	}
	req.Steps = append(req.Steps, rk.Step{Argv: argv})
	resp, err := rk.Run(req)
	if err != nil {
		return nil, err
	}
	last := resp.Steps[len(resp.Steps)-1]
	prev := resp.Init
	if len(resp.Steps) > 1 {
		prev = resp.Steps[len(resp.Steps)-2]
		if prev.Exit != 0 {
			return nil, fmt.Errorf("setup mount failed: %s", prev.Out)
		}
	}
	mounts := func(r rk.StepRes) string {
		var b strings.Builder
		for _, m := range r.Mounts {
			b.WriteString(m.MP + "|" + m.Fstype + "|" + m.Sopts + "\n")
		}
		return b.String()
	}
	changed := last.TreeSig != prev.TreeSig || mounts(last) != mounts(prev)
	term := q.App("C15.CProc", q.App("C15.MkP", toksTerm(p.Pre), q.Hx(p.Cmd), toksTerm(p.Post), q.HxList(argv),
		q.Nat(len(last.Ops)), q.Bool(changed), q.Bool(last.Would), q.Bool(last.Action)))
	raw, _ := json.Marshal(p)
	var pin interface{}
	json.Unmarshal(raw, &pin)
	hasP := false
	for _, t := range append(append([]Tok{}, p.Pre...), p.Post...) {
		if t.Kind == "bool" && t.Name == "p" {
			hasP = true
		}
	}
	c := &common.Case{Coq: term, Key: "proc:" + strings.Join(argv, " ") + fmt.Sprint(p.Mounted),
		Nontrivial: hasP,
		Classes:    []string{"process-level", "cmd=" + p.Cmd},
		Desc: map[string]interface{}{"input": map[string]interface{}{"proc": pin},
			"obs": map[string]interface{}{"argv": argv, "exit": last.Exit, "out": last.Out, "ops": len(last.Ops), "changed": changed}}}
	return c, nil
}
