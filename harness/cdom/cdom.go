// Package cdom: generators for the layercake-command properties
// C01 C03 C04 C08 C09 C10 C11 C15 C16 (all share the LC.case format of package lcw).
package cdom

import (
	"encoding/json"
	"fmt"
	"path"
	"strings"

	"lcverif/common"
	"lcverif/lcw"
	"lcverif/rk"
	"lcverif/rng"
)

type gen func(r *rng.R, tier string) []lcw.Input

func register(name string, g gen, nontrivial func(in lcw.Input, obs []lcw.StepObs) bool) {
	run := func(in lcw.Input) (*common.Case, error) {
		c, obs, err := lcw.RunCase(in)
		if err != nil {
			return nil, err
		}
		if name == "c15" {
			c.Coq = "(C15.CIn " + c.Coq + ")"
		}
		if name == "c10" {
			c.Coq = "(C10.CIn " + c.Coq + ")"
		}
		c.Classes = lcw.Classes(in, obs)
		raw, _ := json.Marshal(in)
		c.Key = string(raw)
		c.Nontrivial = nontrivial(in, obs)
		return c, nil
	}
	common.Register(name, common.Prop{
		Generate: func(rr common.Rand, tier string, n int, emit func(*common.Case)) {
			r := rng.New(rr.U64())
			count, calls := 0, 0
			for count < n && !lcw.Diverged {
				sub := r.U64()
				calls++
				if name == "c10" && calls%3 == 0 { // a batch of stagemaker runs with failing sinks (cheap: extra to n)
					sr := rng.New(sub)
					for i := 0; i < 6; i++ {
						sc, err := runStageCase(genStageInput(sr))
						if err != nil {
							panic(err)
						}
						sc.Sub = sub
						emit(sc)
					}
					continue
				}
				if name == "c15" && count%5 == 4 && rk.Available() {
					pc, err := runProc(genProcInput(rng.New(sub)))
					if err != nil {
						panic(err)
					}
					pc.Sub = sub
					emit(pc)
					count++
					continue
				}
				inputs := []lcw.Input(nil)
				if calls%4 == 1 { // every fourth draw: the shared random-history stream
					inputs = []lcw.Input{history(rng.New(sub))}
				} else {
					inputs = g(rng.New(sub), tier)
				}
				for _, in := range inputs {
					maybeCLI(&in, sub)
					c, err := run(in)
					if err != nil {
						panic(err)
					}
					c.Sub = sub
					emit(c)
					count++
					if count >= n || lcw.Diverged {
						break
					}
				}
			}
		},
		Replay: func(raw json.RawMessage) (*common.Case, error) {
			var probe struct {
				Proc *ProcInput `json:"proc"`
			}
			if json.Unmarshal(raw, &probe) == nil && probe.Proc != nil {
				return runProc(*probe.Proc)
			}
			var sprobe struct {
				Stage *StageInput `json:"stage"`
			}
			if json.Unmarshal(raw, &sprobe) == nil && sprobe.Stage != nil {
				return runStageCase(*sprobe.Stage)
			}
			var in lcw.Input
			if err := json.Unmarshal(raw, &in); err != nil {
				return nil, err
			}
			return run(in)
		},
	})
}

func step(kind, a, b string, flag bool) lcw.StepIn {
	return lcw.StepIn{Cmd: lcw.Cmd{Kind: kind, A: a, B: b, Flag: flag}}
}

func kmount(src, tgt, fstype string, flags uint64, data string) lcw.StepIn {
	// a hand-made mount is recorded on the path the kernel resolves it to
	return lcw.StepIn{Cmd: lcw.Cmd{Kind: "kmount", A: src, B: path.Clean(tgt) + "|" + fstype + "|" + data, C: fmt.Sprint(flags)}}
}
func kumount(tgt string) lcw.StepIn {
	return lcw.StepIn{Cmd: lcw.Cmd{Kind: "kumount", A: path.Clean(tgt)}}
}

func buildPath(cfg lcw.Cfg, name string) string { return cfg.Layers + "/" + name + "/" + cfg.BuildRoot }

func chainOf(ws lcw.WorldSpec, name string) []string {
	by := map[string]lcw.LayerSpec{}
	for _, l := range ws.Layers {
		by[l.Name] = l
	}
	var out []string
	for n := name; n != ""; n = by[n].Base {
		out = append([]string{n}, out...)
		if len(out) > 20 {
			break
		}
	}
	return out
}

func mountpointsOf(cfg lcw.Cfg, l lcw.LayerSpec) []string {
	var out []string
	if l.Base != "" {
		out = append(out, buildPath(cfg, l.Name))
	}
	for _, m := range l.Imports {
		out = append(out, buildPath(cfg, l.Name)+cleanAbs(m.Mount))
	}
	return out
}

func cleanAbs(p string) string {
	parts := []string{}
	for _, c := range strings.Split(p, "/") {
		switch c {
		case "", ".":
		case "..":
			if len(parts) > 0 {
				parts = parts[:len(parts)-1]
			}
		default:
			parts = append(parts, c)
		}
	}
	return "/" + strings.Join(parts, "/")
}

func pickLayer(r *rng.R, ws lcw.WorldSpec) lcw.LayerSpec { return ws.Layers[r.Intn(len(ws.Layers))] }

func genUsers(r *rng.R, ws lcw.WorldSpec, density int) map[string][]lcw.User {
	us := map[string][]lcw.User{}
	for _, l := range ws.Layers {
		if !r.Chance(density, 10) {
			continue
		}
		for k := 1 + r.Intn(2); k > 0; k-- {
			us[l.Name] = append(us[l.Name], lcw.User{Root: r.Chance(1, 5),
				File: r.Pick([]string{"build", "build/usr/lib", "overlayfs/upperdir", "overlayfs/workdir/work", "packages",
					"packages/sub", "generated", "", "buildx", "build2/x", "overlayfs"})})
		}
	}
	return us
}

// prior mount state: mount some layers, then disturb by hand
func priorMounts(r *rng.R, ws lcw.WorldSpec, cfg lcw.Cfg, disturb bool) []lcw.StepIn {
	var steps []lcw.StepIn
	for k := r.Intn(3); k > 0; k-- {
		steps = append(steps, step("mount", pickLayer(r, ws).Name, "", false))
	}
	if disturb {
		for k := r.Intn(3); k > 0; k-- {
			l := pickLayer(r, ws)
			mps := mountpointsOf(cfg, l)
			switch r.Intn(5) {
			case 4: // a foreign mount of the SAME file-system type on the mountpoint of a non-bind import
				for _, m := range l.Imports {
					mp := buildPath(cfg, l.Name) + m.Mount
					if m.Fstype != "bind" && m.Fstype != "rbind" {
						steps = append(steps, kumount(mp), kmount("other-"+m.Source, mp, m.Fstype, 0, ""))
						break
					}
				}
			case 0: // unmount one import by hand (partial mount)
				if len(mps) > 0 {
					steps = append(steps, kumount(mps[len(mps)-1-r.Intn(len(mps))]))
				}
			case 1: // a foreign tmpfs below the build root
				steps = append(steps, kmount("tmpfs", buildPath(cfg, l.Name)+"/"+r.Pick(lcw.MinimalDirs), "tmpfs", 0, ""))
			case 2: // wrong source on a configured mountpoint
				if len(mps) > 0 {
					steps = append(steps, kmount(cfg.Base+"/host/distfiles", mps[r.Intn(len(mps))], "", 4096, ""))
				}
			case 3: // a submount in a host source directory (copied by a later rbind)
				steps = append(steps, kmount("tmpfs", cfg.Base+"/host/repos", "tmpfs", 0, ""))
			}
		}
	}
	return steps
}

// history: a random sequence of commands of every kind on a random world -- the stream shared by all
// layercake-command properties (each predicate is evaluated on every step of every history).  It
// reaches what the scenario generators do not aim at: names re-used after a removal, commands on
// layers left behind by earlier commands of the same history, hand-made mounts and edits in between.
func history(r *rng.R) lcw.Input {
	ws, in := world(r, r.Chance(3, 4))
	cfg := in.Cfg
	names := lcw.LayerNames(ws)
	var removed []string
	pick := func() string {
		if len(names) > 0 && r.Chance(7, 8) {
			return names[r.Intn(len(names))]
		}
		return lcw.PickName(r)
	}
	fresh := func() string {
		if len(removed) > 0 && r.Chance(1, 2) {
			return removed[r.Intn(len(removed))] // a name that was in use before
		}
		return r.Pick([]string{"newlayer", "n2", "work", "w-1"})
	}
	n := 3 + r.Intn(5)
	for i := 0; i < n; i++ {
		var s lcw.StepIn
		switch r.Intn(17) {
		case 0, 1, 2:
			s = step("mount", pick(), "", false)
		case 3:
			s = step("umount", pick(), "", false)
		case 4:
			s = step("umount", "", "", true)
		case 5, 6:
			nn := fresh()
			s = step("add", nn, r.Pick(append(append([]string{}, names...), "")), false)
			names = append(names, nn)
		case 7:
			nn := fresh()
			s = step("rename", pick(), nn, false)
			names = append(names, nn)
		case 8:
			s = step("rebase", pick(), r.Pick(append(append([]string{}, names...), "")), false)
		case 9, 10:
			t := pick()
			s = step("remove", t, "", r.Chance(1, 3))
			removed = append(removed, t)
		case 11:
			s = step("mkdirs", pick(), "", false)
		case 12:
			s = step("shake", "", "", false)
		case 13: // a hand-made mount or umount below some build root
			t := pick()
			if r.Bool() {
				s = kmount("tmpfs", cfg.Layers+"/"+t+"/"+cfg.BuildRoot+"/"+r.Pick(lcw.MinimalDirs), "tmpfs", 0, "")
			} else {
				s = kumount(cfg.Layers + "/" + t + "/" + cfg.BuildRoot + r.Pick([]string{"", "/proc", "/dev", "/var/db/repos", "/mnt/gen"}))
			}
		case 14: // somebody writes a file into a layer
			t := pick()
			s = lcw.StepIn{Cmd: lcw.Cmd{Kind: "edit", A: cfg.Layers + "/" + t + "/" + r.Pick([]string{"notes.txt",
				cfg.BuildRoot + "/root/.profile", cfg.BuildRoot + "/home/user-data", "packages/app-1.tbz2", "generated/out.txt",
				"overlayfs/upperdir/etc-conf", "overlayfs/workdir/leftover"}), B: "user data\n"}}
		case 15:
			s = step("chroot", pick(), "", false)
		default:
			s = step("probe", "", "", false)
		}
		if s.Cmd.Kind != "kmount" && s.Cmd.Kind != "kumount" && s.Cmd.Kind != "edit" {
			s.Env = lcw.Env{Pretend: r.Chance(1, 10), Force: r.Chance(1, 10), Verbose: r.Chance(1, 6)}
			if r.Chance(1, 4) {
				s.Users = genUsers(r, ws, 3)
			}
		}
		in.Steps = append(in.Steps, s)
	}
	return in
}

// siblingWorld: one base with several derived siblings, all mounted, some busy some idle, then umount -all
func siblingWorld(r *rng.R) lcw.Input {
	ws, in := world(r, true)
	imports := lcw.GenImports(r, in.Cfg, true)
	ws.Layers = []lcw.LayerSpec{{Name: "base1", HasConfig: true, HasBuild: true, Minimal: true, Mountpoints: true, Imports: imports, HasPackages: true}}
	sibs := []string{"sib1", "sib2", "sib3"}[:2+r.Intn(2)]
	for _, n := range sibs {
		ws.Layers = append(ws.Layers, lcw.LayerSpec{Name: n, Base: "base1", HasConfig: true, HasBuild: true, Minimal: true,
			Mountpoints: true, HasWork: true, HasUpper: true, Imports: lcw.GenImports(r, in.Cfg, false)})
	}
	in = lcw.BuildInput(ws)
	// one sibling may stay unmounted: busy (a process sits in it) without being mounted, it holds
	// nothing of the base, which is idle once the mounted siblings are gone
	unmounted := ""
	if r.Chance(1, 3) {
		unmounted = sibs[r.Intn(len(sibs))]
	}
	for _, n := range sibs {
		if n != unmounted {
			in.Steps = append(in.Steps, step("mount", n, "", false))
		}
	}
	last := step("umount", "", "", true)
	last.Users = map[string][]lcw.User{}
	for _, n := range sibs {
		if r.Chance(1, 2) || n == unmounted {
			last.Users[n] = []lcw.User{{File: r.Pick([]string{"build", "build/usr", "overlayfs/upperdir", "build/root"})}}
		}
	}
	in.Steps = append(in.Steps, last, step("probe", "", "", false))
	return in
}

// scatteredMounts: the mounts of one layer do not form one block of the mount table -- another layer
// was mounted in between and one import was mounted again later -- and then the layer is unmounted
func scatteredMounts(r *rng.R) lcw.Input {
	ws, in := world(r, true)
	a, b := pickLayer(r, ws), pickLayer(r, ws)
	in.Steps = append(in.Steps, step("mount", a.Name, "", false), step("mount", b.Name, "", false))
	if mps := mountpointsOf(in.Cfg, a); len(mps) > 0 {
		in.Steps = append(in.Steps, kumount(mps[r.Intn(len(mps))]))
	}
	in.Steps = append(in.Steps, step("mount", a.Name, "", false))
	if r.Chance(1, 2) {
		in.Steps = append(in.Steps, step("umount", a.Name, "", false))
	} else {
		in.Steps = append(in.Steps, step("umount", b.Name, "", false), step("umount", a.Name, "", false))
	}
	in.Steps = append(in.Steps, step("umount", "", "", true), step("probe", "", "", false))
	return in
}

// remountAfterLoss: a mounted stack loses one import of some layer of the chain by hand (or gains an
// import line in a layerconfig); the next mount of the top layer has to bring exactly that one back
func remountAfterLoss(r *rng.R) lcw.Input {
	ws, in := world(r, true)
	// the deepest layer available
	top := ws.Layers[0]
	depth := func(l lcw.LayerSpec) int {
		d := 0
		for l.Base != "" && d < 10 {
			for _, x := range ws.Layers {
				if x.Name == l.Base {
					l = x
					break
				}
			}
			d++
		}
		return d
	}
	for _, l := range ws.Layers {
		if depth(l) > depth(top) {
			top = l
		}
	}
	in.Steps = append(in.Steps, step("mount", top.Name, "", false))
	// a victim on the chain, preferably an ancestor
	chain := []lcw.LayerSpec{top}
	for l := top; l.Base != ""; {
		found := false
		for _, x := range ws.Layers {
			if x.Name == l.Base {
				chain, l, found = append(chain, x), x, true
				break
			}
		}
		if !found {
			break
		}
	}
	v := chain[r.Intn(len(chain))]
	if len(chain) > 1 && r.Chance(2, 3) {
		v = chain[1+r.Intn(len(chain)-1)]
	}
	if mps := mountpointsOf(in.Cfg, v); len(mps) > 0 {
		in.Steps = append(in.Steps, kumount(mps[len(mps)-1-r.Intn(len(mps))]))
	}
	in.Steps = append(in.Steps, step("mount", top.Name, "", false), step("mount", top.Name, "", false), step("probe", "", "", false))
	return in
}

func world(r *rng.R, healthy bool) (lcw.WorldSpec, lcw.Input) {
	ws := lcw.GenWorld(r, 5, healthy)
	return ws, lcw.BuildInput(ws)
}

func init() {
	anyChange := func(in lcw.Input, obs []lcw.StepObs) bool {
		for _, o := range obs {
			if len(o.Ops) > 0 || o.Res == "fail" {
				return true
			}
		}
		return false
	}
	// ---- C01
	register("c01", func(r *rng.R, tier string) []lcw.Input {
		if r.Chance(1, 4) {
			return []lcw.Input{remountAfterLoss(r)}
		}
		if r.Chance(1, 10) {
			return []lcw.Input{spelledConfig(r)}
		}
		ws, in := world(r, r.Chance(5, 6))
		if r.Chance(1, 6) { // an import whose mountpoint tries to leave the build root
			l := &ws.Layers[r.Intn(len(ws.Layers))]
			l.Imports = append(l.Imports, lcw.Imp{Fstype: "bind", Source: in.Cfg.Base + "/host/repos", Mount: "../../escape"})
			ws.Foreign = append(ws.Foreign, lcw.Entry{Path: lcw.B(in.Cfg.Layers + "/escape"), Kind: "d"})
			in = lcw.BuildInput(ws)
		}
		if r.Chance(1, 6) { // an rbind that carries a submount onto a later import's mountpoint
			l := &ws.Layers[r.Intn(len(ws.Layers))]
			l.Imports = []lcw.Imp{{Fstype: "rbind", Source: in.Cfg.Base + "/host/repos", Mount: "/mnt/a"},
				{Fstype: "bind", Source: in.Cfg.Base + "/host/distfiles", Mount: "/mnt/a/sub"}}
			l.HasBuild, l.Minimal, l.Mountpoints, l.RawConfig, l.HasConfig = true, true, true, "", true
			ws.Foreign = append(ws.Foreign, lcw.Entry{Path: lcw.B(in.Cfg.Base + "/host/repos/sub"), Kind: "d"})
			in = lcw.BuildInput(ws)
			in.Steps = append(in.Steps, kmount("tmpfs", in.Cfg.Base+"/host/repos/sub", "tmpfs", 0, ""))
		}
		in.Steps = append(in.Steps, priorMounts(r, ws, in.Cfg, r.Chance(1, 2))...)
		t := pickLayer(r, ws).Name
		in.Steps = append(in.Steps, step("mount", t, "", false), step("mount", t, "", false))
		return []lcw.Input{in}
	}, func(in lcw.Input, obs []lcw.StepObs) bool {
		for i, o := range obs {
			if in.Steps[i].Cmd.Kind == "mount" && len(o.Ops) > 0 {
				return true
			}
		}
		return false
	})
	// ---- C03
	register("c03", func(r *rng.R, tier string) []lcw.Input {
		if r.Chance(1, 8) {
			return []lcw.Input{hiddenMounts(r, true)} // r5_c04.go
		}
		ws, in := world(r, true)
		if r.Chance(1, 5) {
			return []lcw.Input{siblingWorld(r)}
		}
		if r.Chance(1, 6) {
			return []lcw.Input{scatteredMounts(r)}
		}
		if r.Chance(1, 6) { // a mount of the layer hidden by a later mount on an ancestor directory (r5_c03.go)
			return []lcw.Input{coveredMount(r)}
		}
		in.Steps = append(in.Steps, priorMounts(r, ws, in.Cfg, r.Chance(1, 3))...)
		in.Steps = append(in.Steps, step("mount", pickLayer(r, ws).Name, "", false))
		if r.Chance(1, 3) { // manual submount tree below a build root
			l := pickLayer(r, ws)
			in.Steps = append(in.Steps, kmount("/dev", buildPath(in.Cfg, l.Name)+"/opt", "", 4096+16384, ""))
		}
		if r.Chance(1, 6) { // a mounted layer whose layerconfig has been damaged since
			l := pickLayer(r, ws)
			in.Steps = append(in.Steps, step("mount", l.Name, "", false))
			in.Steps = append(in.Steps, lcw.StepIn{Cmd: lcw.Cmd{Kind: "edit", A: in.Cfg.Layers + "/" + l.Name + "/layerconfig",
				B: "base " + l.Base + "\nbogus keyword\n"}})
		}
		var last lcw.StepIn
		switch r.Intn(5) {
		case 0:
			last = step("umount", "", "", true)
		case 1:
			last = step("umount", "", "", false)
		default:
			last = step("umount", pickLayer(r, ws).Name, "", false)
		}
		last.Users = genUsers(r, ws, 2)
		if r.Chance(1, 2) && last.Cmd.A != "" { // a process chrooted into a directory of the layer that is no part of the mounted tree
			last.Users = map[string][]lcw.User{last.Cmd.A: {{Root: true, File: r.Pick([]string{"rescue", "packages", "", "generated/x", "buildx", "overlayfs"})}}}
		}
		in.Steps = append(in.Steps, last)
		if r.Chance(1, 2) {
			in.Steps = append(in.Steps, step("umount", "", "", true))
		}
		return []lcw.Input{in}
	}, func(in lcw.Input, obs []lcw.StepObs) bool {
		for i, o := range obs {
			if in.Steps[i].Cmd.Kind == "umount" && len(o.Ops) > 0 {
				return true
			}
		}
		return false
	})
	// ---- C04
	register("c04", func(r *rng.R, tier string) []lcw.Input {
		if r.Chance(1, 10) {
			return []lcw.Input{stackedOverOverlay(r)}
		}
		if r.Chance(1, 6) {
			return []lcw.Input{hiddenMounts(r, false)} // r5_c04.go
		}
		if r.Chance(1, 6) {
			return []lcw.Input{siblingWorld(r)}
		}
		ws, in := world(r, r.Chance(2, 3))
		if r.Chance(1, 4) {
			// an INCOMPLETE layer (an overlayfs directory missing) that still has a mount below its
			// build root, or a user inside it: it and its parent must be protected all the same
			for i := range ws.Layers {
				if ws.Layers[i].Base != "" {
					l := &ws.Layers[i]
					l.HasBuild, l.Minimal = true, true
					switch r.Intn(3) {
					case 0:
						l.HasUpper = false
					case 1:
						l.HasWork = false
					default: // a layer whose layerconfig does not load cleanly (error state)
						l.RawConfig = "base " + l.Base + "\nimport rbind /dev /dev\nbogus line here\n"
					}
					in = lcw.BuildInput(ws)
					if r.Chance(2, 3) {
						in.Steps = append(in.Steps, kmount("tmpfs", buildPath(in.Cfg, l.Name)+"/"+r.Pick(lcw.MinimalDirs), "tmpfs", 0, ""))
					}
					var last lcw.StepIn
					t := r.Pick([]string{l.Name, l.Name, l.Base})
					switch r.Intn(4) {
					case 0:
						last = step("remove", t, "", r.Chance(1, 2))
					case 1:
						last = step("rename", t, "newname", false)
					case 2:
						last = step("rebase", t, "", false)
					default:
						last = step("rebase", t, r.Pick(append(lcw.LayerNames(ws), "")), false)
					}
					if r.Chance(1, 3) {
						last.Users = map[string][]lcw.User{l.Name: {{File: r.Pick([]string{"packages", "build", "", "overlayfs"})}}}
					}
					in.Steps = append(in.Steps, last)
					return []lcw.Input{in}
				}
			}
		}
		for _, sib := range ws.Layers { // a parent whose name is the beginning of a sibling's: its busy child protects it all the same
			i := strings.LastIndexByte(sib.Name, '-')
			if i <= 0 || !r.Chance(2, 3) {
				continue
			}
			p := sib.Name[:i]
			for _, c := range ws.Layers {
				if c.Base == p {
					var last lcw.StepIn
					if r.Bool() {
						last = step("rename", p, "newname", false)
					} else {
						last = step("rebase", p, r.Pick(append(lcw.LayerNames(ws), "")), false)
					}
					last.Users = map[string][]lcw.User{c.Name: {{File: r.Pick([]string{"build/usr", "", "packages", "overlayfs/upperdir"})}}}
					in.Steps = append(in.Steps, last)
					return []lcw.Input{in}
				}
			}
		}
		in.Steps = append(in.Steps, priorMounts(r, ws, in.Cfg, r.Chance(1, 4))...)
		t := pickLayer(r, ws).Name
		var last lcw.StepIn
		switch r.Intn(6) {
		case 0:
			last = step("remove", t, "", r.Chance(1, 3))
		case 1:
			last = step("rename", t, "newname", false)
		case 2:
			last = step("rebase", t, r.Pick(append(lcw.LayerNames(ws), "")), false)
		case 3, 4:
			last = step("umount", t, "", false)
		default:
			last = step("umount", "", "", true)
		}
		last.Users = genUsers(r, ws, 4)
		in.Steps = append(in.Steps, last)
		return []lcw.Input{in}
	}, func(in lcw.Input, obs []lcw.StepObs) bool {
		last := in.Steps[len(in.Steps)-1]
		return len(last.Users) > 0 || len(obs) > 1
	})
	// ---- C08
	register("c08", func(r *rng.R, tier string) []lcw.Input {
		if r.Chance(1, 8) {
			return []lcw.Input{spelledConfig(r)}
		}
		ws := lcw.GenWorld(r, 5, r.Chance(1, 3))
		if r.Chance(1, 8) {
			ws.HostLayout = "bindbase"
		}
		if r.Chance(1, 5) { // a derived layer that lost SEVERAL of its set-up directories at once
			for i := range ws.Layers {
				if ws.Layers[i].Base != "" {
					l := &ws.Layers[i]
					l.HasBuild, l.HasWork, l.HasUpper = r.Chance(1, 4), r.Chance(1, 3), r.Chance(1, 3)
					in := lcw.BuildInput(ws)
					in.Steps = append(in.Steps, step("probe", "", "", false),
						step(r.Pick([]string{"mkdirs", "mkdirs", "mount"}), l.Name, "", false), step("probe", "", "", false))
					return []lcw.Input{in}
				}
			}
		}
		cfg := lcw.StdCfg(ws.BaseName)
		if r.Chance(1, 4) { // export links right / wrong / not a symlink
			l := pickLayer(r, ws)
			p := cfg.Exports + "/packages/" + l.Name
			switch r.Intn(3) {
			case 0:
				ws.Foreign = append(ws.Foreign, lcw.Entry{Path: lcw.B(p), Kind: "l", Data: lcw.B(cfg.Layers + "/" + l.Name + "/build/var/cache/binpkgs")})
			case 1:
				ws.Foreign = append(ws.Foreign, lcw.Entry{Path: lcw.B(p), Kind: "l", Data: "/somewhere/else"})
			default:
				ws.Foreign = append(ws.Foreign, lcw.Entry{Path: lcw.B(p), Kind: "d"})
			}
		}
		in := lcw.BuildInput(ws)
		in.Steps = append(in.Steps, priorMounts(r, ws, in.Cfg, true)...)
		p := step("probe", "", "", false)
		p.Users = genUsers(r, ws, 2)
		in.Steps = append(in.Steps, p)
		t := pickLayer(r, ws).Name
		switch r.Intn(3) {
		case 0:
			in.Steps = append(in.Steps, step("mkdirs", t, "", false), step("probe", "", "", false))
		case 1:
			in.Steps = append(in.Steps, step("mount", t, "", false), step("probe", "", "", false))
		}
		return []lcw.Input{in}
	}, func(in lcw.Input, obs []lcw.StepObs) bool {
		for _, o := range obs {
			for _, l := range o.Layers {
				if l.State != 5 {
					return true
				}
			}
		}
		return false
	})
	// ---- C09
	register("c09", func(r *rng.R, tier string) []lcw.Input {
		if r.Chance(1, 6) {
			return []lcw.Input{removeForced(r)}
		}
		ws := lcw.GenWorld(r, 5, r.Chance(1, 2))
		cfg := lcw.StdCfg(ws.BaseName)
		t := pickLayer(r, ws)
		if r.Chance(1, 5) {
			ws.Foreign = append(ws.Foreign, lcw.Entry{Path: lcw.B(cfg.Layers + "/" + t.Name + "~removed/keep.txt"), Kind: "f", Data: "old"})
		}
		if r.Chance(1, 2) { // a pristine layer: exactly what add creates
			for i := range ws.Layers {
				if ws.Layers[i].Name == t.Name {
					ws.Layers[i].Files, ws.Layers[i].Minimal, ws.Layers[i].Mountpoints = nil, false, false
					ws.Layers[i].HasPackages, ws.Layers[i].HasGen = false, false
					if r.Chance(1, 2) { // ... except for one file in a place that is easy to overlook
						if ws.Layers[i].Base != "" {
							ws.Layers[i].Files = []string{r.Pick([]string{"overlayfs/workdir/notes.txt", "overlayfs/workdir/work/x",
								"overlayfs/upperdir/.hidden", "overlayfs/extra", "build/.keep"})}
						} else {
							ws.Layers[i].Files = []string{r.Pick([]string{"build/root/.profile", "build/.keep", "stage3.tar.xz", "build/root/.bashrc.orig"})}
						}
					}
				}
			}
		}
		in := lcw.BuildInput(ws)
		if r.Chance(1, 4) {
			base := r.Pick(append(lcw.LayerNames(ws), "", ""))
			in.Steps = append(in.Steps, step("add", "fresh", base, false))
			if r.Chance(1, 2) { // the user's only file sorts BEFORE (or after) everything add created
				in.Steps = append(in.Steps, lcw.StepIn{Cmd: lcw.Cmd{Kind: "edit", A: in.Cfg.Layers + "/fresh/" + r.Pick([]string{
					"NOTES", "AAA", "build/AAA", "build/root/.bash_history", "build/root/.aaa", "build/root/.profile", "build/zzz",
					"zzz", "overlayfs/zzz"}), B: "user data\n"}})
			}
			if r.Chance(2, 3) {
				in.Steps = append(in.Steps, step("remove", "fresh", "", false))
			}
		}
		if r.Chance(1, 4) { // the layer has been in use: mounted once (export links exist), a build left packages behind
			in.Steps = append(in.Steps, step("mount", t.Name, "", false), step("umount", "", "", true),
				lcw.StepIn{Cmd: lcw.Cmd{Kind: "edit", A: in.Cfg.Layers + "/" + t.Name + "/" + r.Pick([]string{"packages/app-1.tbz2", "generated/out.txt"}), B: "built\n"}})
		}
		in.Steps = append(in.Steps, step("remove", t.Name, "", false))
		return []lcw.Input{in}
	}, func(in lcw.Input, obs []lcw.StepObs) bool {
		return obs[len(obs)-1].Res == "ok"
	})
	// ---- C10 / C11: fault and crash positions
	faulty := func(mode string) gen {
		return func(r *rng.R, tier string) []lcw.Input {
			if mode == "crash" && r.Chance(1, 8) { // no fault at all: a rewrite in a chain three deep keeps every other layer's parent
				ws := lcw.WorldSpec{BaseName: "b", HostLayout: "plain"}
				imps := lcw.GenImports(r, lcw.StdCfg("b"), true)
				prev := ""
				for _, n := range []string{"top", "mid", "leaf", "twig"}[:3+r.Intn(2)] {
					ws.Layers = append(ws.Layers, lcw.LayerSpec{Name: n, Base: prev, HasConfig: true, HasBuild: true, Minimal: true,
						Mountpoints: true, HasWork: prev != "", HasUpper: prev != "", Imports: imps})
					prev = n
				}
				in := lcw.BuildInput(ws)
				switch r.Intn(3) {
				case 0:
					in.Steps = append(in.Steps, step("rename", "top", "bottom", false))
				case 1:
					in.Steps = append(in.Steps, step("rename", "mid", "middle", false))
				default:
					in.Steps = append(in.Steps, step("rebase", "mid", "", false))
				}
				in.Steps = append(in.Steps, step("probe", "", "", false))
				return []lcw.Input{in}
			}
			if mode == "fail" && r.Chance(1, 10) { // umount -all of a mounted chain: every umount fails in turn, also the base layer's
				ws, in := world(r, true)
				t := pickLayer(r, ws).Name
				in.Steps = append(in.Steps, step("mount", t, "", false))
				probeIn := in
				cmd := step("umount", "", "", true)
				probeIn.Steps = append(append([]lcw.StepIn{}, in.Steps...), cmd)
				_, obs, err := lcw.Run(probeIn)
				if err != nil || len(obs) != len(probeIn.Steps) {
					return nil
				}
				var out []lcw.Input
				for k := 0; k < len(obs[len(obs)-1].Ops) && k < 12; k++ {
					c := cmd
					c.Env = lcw.Env{Fault: mode, K: k, Verbose: r.Chance(1, 3)}
					x := in
					x.Steps = append(append([]lcw.StepIn{}, in.Steps...), c, step("probe", "", "", false))
					out = append(out, x)
				}
				return out
			}
			ws, in := world(r, true)
			if mode == "crash" && r.Chance(1, 2) { // odd but loadable layerconfigs
				for i := range ws.Layers {
					l := ws.Layers[i]
					var b strings.Builder
					b.WriteString("# comment\n\n")
					if l.Base != "" {
						fmt.Fprintf(&b, "  base\t%s  \r\n", l.Base)
					}
					for _, m := range l.Imports {
						fmt.Fprintf(&b, "import   %s\t%s   %s//./\n// another comment\n", m.Fstype, m.Source, m.Mount)
					}
					for _, m := range l.Exports {
						fmt.Fprintf(&b, "export %s %s %s\n", m.Fstype, m.Source, m.Mount)
					}
					ws.Layers[i].RawConfig = b.String()
				}
				in = lcw.BuildInput(ws)
			}
			if mode == "crash" && r.Chance(1, 3) { // a LONG temporary file left by an interrupted earlier rewrite
				for _, l := range ws.Layers {
					if r.Chance(2, 3) {
						ws.Foreign = append(ws.Foreign, lcw.Entry{Path: lcw.B(in.Cfg.Layers + "/" + l.Name + "/layerconfig.tmp"), Kind: "f",
							Data: lcw.B("base a_rather_long_parent_name_of_an_earlier_attempt\n\n" + lcw.ConfigText(l) +
								"import bind /srv/one /mnt/one\nimport bind /srv/two /mnt/two\n\nexport symlink /out2 $$file_export\n")})
					}
				}
				in = lcw.BuildInput(ws)
			}
			in.Steps = append(in.Steps, priorMounts(r, ws, in.Cfg, false)...)
			t := pickLayer(r, ws).Name
			if r.Chance(1, 3) { // the layer has been in use before: its export links exist, nothing is mounted now
				in.Steps = append(in.Steps, step("mount", t, "", false), step("umount", "", "", true))
			}
			var cmd lcw.StepIn
			kinds := []string{"add", "rename", "rebase", "remove", "mkdirs", "mount", "umount", "init"}
			if mode == "crash" {
				kinds = []string{"add", "rename", "rebase", "add", "rename", "rebase", "remove"}
			}
			switch r.Pick(kinds) {
			case "add":
				cmd = step("add", "newlayer", r.Pick(append(lcw.LayerNames(ws), "")), false)
			case "rename":
				if r.Chance(2, 3) { // preferably a layer with children: their layerconfigs are rewritten too
					for _, c := range ws.Layers {
						if c.Base != "" {
							t = c.Base
							break
						}
					}
				}
				cmd = step("rename", t, "renamed", false)
			case "rebase":
				cmd = step("rebase", t, r.Pick(append(lcw.LayerNames(ws), "")), false)
			case "remove":
				cmd = step("remove", t, "", r.Chance(1, 2))
			case "mkdirs":
				cmd = step("mkdirs", t, "", false)
			case "mount":
				cmd = step("mount", t, "", false)
			case "umount":
				cmd = step("umount", "", "", true)
			case "init":
				in.FS = in.FS[:1]
				in.Steps = nil
				cmd = step("init", "", "", false)
			}
			// count the operations of the fault-free run
			probeIn := in
			probeIn.Steps = append(append([]lcw.StepIn{}, in.Steps...), cmd)
			_, obs, err := lcw.Run(probeIn)
			if err != nil || len(obs) != len(probeIn.Steps) {
				return nil
			}
			n := len(obs[len(obs)-1].Ops)
			var out []lcw.Input
			ks := []int{}
			for k := 0; k < n; k++ {
				ks = append(ks, k)
			}
			for len(ks) > 6 { // sample, keeping first and last
				i := 1 + r.Intn(len(ks)-2)
				ks = append(ks[:i], ks[i+1:]...)
			}
			for _, k := range ks {
				c := cmd
				c.Env = lcw.Env{Fault: mode, K: k}
				x := in
				x.Steps = append(append([]lcw.StepIn{}, in.Steps...), c)
				if mode == "crash" { // what a later invocation sees
					x.Steps = append(x.Steps, step("probe", "", "", false))
					if r.Chance(1, 2) { // ... and does: the command again, then a rewrite to a SHORTER text
						x.Steps = append(x.Steps, cmd)
						if cmd.Cmd.Kind == "rebase" {
							x.Steps = append(x.Steps, step("rebase", t, "", false))
						}
						x.Steps = append(x.Steps, step("probe", "", "", false))
					}
				}
				out = append(out, x)
			}
			return out
		}
	}
	register("c10", faulty("fail"), func(in lcw.Input, obs []lcw.StepObs) bool {
		for i, o := range obs {
			if in.Steps[i].Env.Fault != "" && len(o.Ops) > in.Steps[i].Env.K {
				return true
			}
		}
		return false
	})
	register("c11", faulty("crash"), func(in lcw.Input, obs []lcw.StepObs) bool {
		for _, o := range obs {
			if o.Res == "crash" {
				return true
			}
		}
		return false
	})
	// ---- C15
	register("c15", func(r *rng.R, tier string) []lcw.Input {
		ws, in := world(r, r.Chance(3, 4))
		leftovers := r.Chance(1, 3)
		if leftovers { // leftovers of an interrupted earlier run sit in the layer directories
			for _, l := range ws.Layers {
				if r.Chance(2, 3) {
					ws.Foreign = append(ws.Foreign, lcw.Entry{Path: lcw.B(in.Cfg.Layers + "/" + l.Name + "/layerconfig.tmp"), Kind: "f", Data: "base stale\n"})
				}
			}
			in = lcw.BuildInput(ws)
		}
		staleLinks := r.Chance(1, 4)
		if staleLinks { // export links that exist but point elsewhere than the export now wants (or at nothing, or are no links)
			for _, l := range ws.Layers {
				if r.Chance(2, 3) {
					p := in.Cfg.Exports + "/" + r.Pick([]string{"packages", "generated"}) + "/" + l.Name
					switch r.Intn(4) {
					case 0:
						ws.Foreign = append(ws.Foreign, lcw.Entry{Path: lcw.B(p), Kind: "l", Data: "/somewhere/else"})
					case 1:
						ws.Foreign = append(ws.Foreign, lcw.Entry{Path: lcw.B(p), Kind: "l", Data: lcw.B(in.Cfg.Layers + "/" + l.Name + "/build/var/cache/binpkgs")})
					case 2:
						ws.Foreign = append(ws.Foreign, lcw.Entry{Path: lcw.B(p), Kind: "l", Data: lcw.B(in.Cfg.Layers + "/" + l.Name + "/packages.old")})
					default:
						ws.Foreign = append(ws.Foreign, lcw.Entry{Path: lcw.B(p), Kind: "f", Data: "foreign"})
					}
				}
			}
			for i := range ws.Layers {
				ws.Layers[i].HasPackages, ws.Layers[i].HasGen = true, r.Chance(1, 2)
			}
			in = lcw.BuildInput(ws)
		}
		if r.Chance(1, 8) && !staleLinks {
			in.FS = in.FS[:1]
			s := step("init", "", "", false)
			s.Env.Pretend = true
			in.Steps = []lcw.StepIn{s}
			return []lcw.Input{in}
		}
		in.Steps = append(in.Steps, priorMounts(r, ws, in.Cfg, r.Chance(1, 4))...)
		t := pickLayer(r, ws).Name
		var cmd lcw.StepIn
		k := r.Intn(10)
		if leftovers && r.Chance(3, 4) {
			k = 1 + r.Intn(2) // the commands that rewrite layerconfigs
		}
		if staleLinks && r.Chance(3, 4) {
			k = []int{5, 5, 5, 1, 3, 9}[r.Intn(6)] // the commands that make or remove export links
		}
		switch k {
		case 0:
			cmd = step("add", "newlayer", r.Pick(append(lcw.LayerNames(ws), "")), false)
		case 1:
			cmd = step("rename", t, "renamed", false)
		case 2:
			cmd = step("rebase", t, r.Pick(append(lcw.LayerNames(ws), "", "")), false)
		case 3:
			cmd = step("remove", t, "", r.Chance(1, 2))
		case 4:
			cmd = step("mkdirs", t, "", false)
		case 5, 6:
			cmd = step("mount", t, "", false)
		case 7:
			cmd = step("umount", r.Pick([]string{t, ""}), "", false)
			cmd.Cmd.Flag = cmd.Cmd.A == ""
		case 8:
			cmd = step("shake", "", "", false)
		default:
			cmd = step("chroot", t, "", false)
		}
		cmd.Env = lcw.Env{Pretend: true, Force: r.Chance(1, 4), Verbose: r.Chance(1, 4)}
		in.Steps = append(in.Steps, cmd)
		// the same command for real afterwards shows what -p suppressed
		real := cmd
		real.Env.Pretend = false
		in.Steps = append(in.Steps, real)
		return []lcw.Input{in}
	}, func(in lcw.Input, obs []lcw.StepObs) bool {
		return len(obs) >= 2 && len(obs[len(obs)-1].Ops) > 0
	})
	// ---- C16
	register("c16", func(r *rng.R, tier string) []lcw.Input {
		if r.Chance(1, 6) {
			return []lcw.Input{remountAfterExportChange(r)}
		}
		ws := lcw.GenWorld(r, 5, true)
		cfg := lcw.StdCfg(ws.BaseName)
		for k := r.Intn(3); k > 0; k-- { // foreign content in the export tree
			l := pickLayer(r, ws)
			p := cfg.Exports + "/" + r.Pick([]string{"packages", "generated"}) + "/" + r.Pick([]string{l.Name, "other", "zzz"})
			switch r.Intn(3) {
			case 0:
				ws.Foreign = append(ws.Foreign, lcw.Entry{Path: lcw.B(p), Kind: "f", Data: "foreign"})
			case 1:
				ws.Foreign = append(ws.Foreign, lcw.Entry{Path: lcw.B(p + "/inner.txt"), Kind: "f", Data: "foreign"})
			default:
				ws.Foreign = append(ws.Foreign, lcw.Entry{Path: lcw.B(p), Kind: "l", Data: "/elsewhere"})
			}
		}
		dangling := ""
		if r.Chance(1, 4) { // an export link of the layer that points nowhere (its directory is gone)
			dangling = pickLayer(r, ws).Name
			ws.Foreign = append(ws.Foreign, lcw.Entry{Path: lcw.B(cfg.Exports + "/" + r.Pick([]string{"packages", "generated"}) + "/" + dangling),
				Kind: "l", Data: lcw.B(cfg.Layers + "/" + dangling + "/" + r.Pick([]string{"gone", "packages.old"}))})
		}
		in := lcw.BuildInput(ws)
		if dangling != "" {
			if r.Chance(1, 2) {
				in.Steps = append(in.Steps, step("mount", dangling, "", false), step("umount", "", "", true))
			}
			if r.Chance(1, 2) {
				in.Steps = append(in.Steps, step("rename", dangling, "renamed", false))
			} else {
				in.Steps = append(in.Steps, step("remove", dangling, "", r.Chance(1, 2)))
			}
			return []lcw.Input{in}
		}
		for k := 1 + r.Intn(4); k > 0; k-- {
			t := pickLayer(r, ws).Name
			switch r.Intn(6) {
			case 0, 1:
				in.Steps = append(in.Steps, step("mount", t, "", false))
			case 2:
				in.Steps = append(in.Steps, step("umount", t, "", false))
			case 3:
				in.Steps = append(in.Steps, step("rename", t, r.Pick([]string{"renamed", "other"}), false))
			case 4:
				in.Steps = append(in.Steps, step("remove", t, "", r.Chance(1, 2)))
			default:
				in.Steps = append(in.Steps, step("umount", "", "", true))
			}
		}
		return []lcw.Input{in}
	}, anyChange)
}
