package cdom

import (
	"lcverif/lcw"
	"lcverif/rng"
)

// Process-level histories: one history in four is executed step by step by the real binary
// cmd/layercake (lcw/cli.go) instead of by calls into package manage, so that the command
// dispatch of the binary (argument handling, global switches, which manage entry point a command
// reaches and under which conditions) is part of what the model is compared with.
func maybeCLI(in *lcw.Input, sub uint64) {
	r := rng.New(sub ^ 0xc11c11c11)
	if in.CLI == 0 && r.Chance(1, 4) {
		in.CLI = 1 + r.Intn(6)
	}
}

// removeForced: a populated layer whose gentle removal cannot work because <name>~removed is taken
// (left by an earlier remove of a layer of that name, or foreign), removed again -- with and
// without the global switch -force, which has no documented meaning for remove
func removeForced(r *rng.R) lcw.Input {
	ws := lcw.GenWorld(r, 4, true)
	t := pickLayer(r, ws)
	for i := range ws.Layers {
		if ws.Layers[i].Name == t.Name && len(ws.Layers[i].Files) == 0 {
			ws.Layers[i].Files = []string{r.Pick([]string{"notes.txt", "build/usr/data.bin", "packages/app-1.tbz2", "overlayfs/keep.txt"})}
		}
	}
	cfg := lcw.StdCfg(ws.BaseName)
	foreign := r.Chance(1, 2)
	if foreign {
		ws.Foreign = append(ws.Foreign, lcw.Entry{Path: lcw.B(cfg.Layers + "/" + t.Name + "~removed/keep.txt"), Kind: "f", Data: "old"})
	}
	in := lcw.BuildInput(ws)
	name := t.Name
	if !foreign { // the name has been used, populated and removed before
		name = "again"
		in.Steps = append(in.Steps, step("add", name, "", false),
			lcw.StepIn{Cmd: lcw.Cmd{Kind: "edit", A: cfg.Layers + "/" + name + "/first.txt", B: "first life\n"}},
			step("remove", name, "", false), step("add", name, "", false),
			lcw.StepIn{Cmd: lcw.Cmd{Kind: "edit", A: cfg.Layers + "/" + name + "/" + r.Pick([]string{"second.txt", "build/root/.profile"}), B: "second life\n"}})
	}
	last := step("remove", name, "", false)
	last.Env = lcw.Env{Force: r.Chance(3, 4), Verbose: r.Chance(1, 4)}
	in.Steps = append(in.Steps, last, step("probe", "", "", false))
	in.CLI = 1 + r.Intn(6)
	return in
}

// remountAfterExportChange: a stack is mounted, then what has to be exported changes while it
// stays mounted (an export directive is written into a layerconfig of the chain), then the top
// layer is mounted again: the second mount has nothing to mount but the export links to renew
func remountAfterExportChange(r *rng.R) lcw.Input {
	ws := lcw.GenWorld(r, 4, true)
	for i := range ws.Layers { // ordinary, mountable layers
		ws.Layers[i].Imports = lcw.GenImports(r, lcw.StdCfg(ws.BaseName), true)
		ws.Layers[i].Exports = nil
	}
	in := lcw.BuildInput(ws)
	top := pickLayer(r, ws)
	chain := chainOf(ws, top.Name)
	vn := chain[r.Intn(len(chain))]
	var v lcw.LayerSpec
	for _, l := range ws.Layers {
		if l.Name == vn {
			v = l
		}
	}
	v.Exports = []lcw.Imp{{Fstype: "symlink", Source: r.Pick([]string{"/var/cache/binpkgs", "/out", "/usr"}),
		Mount: r.Pick([]string{"$$package_export", "$$file_export"})}}
	in.Steps = append(in.Steps, step("mount", top.Name, "", false),
		lcw.StepIn{Cmd: lcw.Cmd{Kind: "edit", A: in.Cfg.Layers + "/" + v.Name + "/layerconfig", B: lcw.ConfigText(v)}},
		step("mount", top.Name, "", false), step("probe", "", "", false))
	in.CLI = 1 + r.Intn(6)
	return in
}
