package cdom

import (
	"strings"

	"lcverif/lcw"
	"lcverif/rng"
)

// Process-level histories: one history in four is executed step by step by the real binary
// cmd/layercake (lcw/cli.go) instead of by calls into package manage, so that the command
// dispatch of the binary (argument handling, global switches, which manage entry point a command
// reaches and under which conditions) is part of what the model is compared with.
func maybeCLI(in *lcw.Input, sub uint64) {
	r := rng.New(sub ^ 0xc11c11c11)
	if in.CLI == 0 && r.Chance(1, 4) {
		in.CLI = 1 + r.Intn(6)
	}
	if in.CLI > 0 && in.Conf == "" && r.Chance(1, 2) {
		WithConfigFile(in, r)
	}
	if in.CLI > 0 { // the state report of a process-level history is the table `layercake list` prints
		for i := range in.Steps {
			if in.Steps[i].Cmd.Kind == "probe" && len(in.Steps[i].Users) == 0 && r.Chance(2, 3) {
				in.Steps[i].Cmd.Kind = "list"
			}
		}
	}
}

// WithConfigFile puts a configuration file (sometimes a chain of two) into the world which, by
// the documentation (doc/layercake_config.adoc), resolves to exactly the configuration of the
// case: every key is optional, directory values may be spelled in any way that is the same
// directory (doubled or trailing slashes, "/./", relative to the base path), keys in any case,
// comments and blank lines anywhere.  Process-level steps pass it with -config.
func WithConfigFile(in *lcw.Input, r *rng.R) {
	if len(in.FS) == 0 || string(in.FS[0].Path) != in.Cfg.Base || in.FS[0].Kind != "d" {
		return
	}
	cfg := in.Cfg
	spell := func(abs, rel string) string {
		switch r.Intn(8) {
		case 0:
			return abs + "/"
		case 1:
			i := 1 + r.Intn(len(abs)-1)
			for abs[i] != '/' && i > 0 {
				i--
			}
			return abs[:i] + "/" + abs[i:] // a doubled slash somewhere
		case 2:
			return cfg.Base + "/./" + rel
		case 3:
			return rel // relative to the base path
		case 4:
			return "./" + rel + "/"
		case 5:
			return cfg.Base + "/" + rel + "/../" + rel
		}
		return abs
	}
	type kv struct{ k, v string }
	var keys []kv
	base := ""
	switch r.Intn(4) {
	case 0:
		base = cfg.Base
	case 1:
		base = cfg.Base + "/"
	case 2:
		base = cfg.Base + "/."
	}
	in.ConfBase = base == "" || r.Chance(1, 3)
	if base != "" {
		keys = append(keys, kv{"BASEPATH", base})
	}
	if r.Chance(2, 3) {
		keys = append(keys, kv{"LAYERS", spell(cfg.Layers, "layers")})
	}
	if r.Chance(2, 3) {
		keys = append(keys, kv{"EXPORTS", spell(cfg.Exports, "export")})
	}
	for _, x := range []kv{{"BUILDROOT", cfg.BuildRoot}, {"BINPKGS", cfg.BinPkg}, {"GENERATED_FILES", cfg.Gen},
		{"OVERFS_WORKDIR", cfg.Work}, {"OVERFS_UPPERDIR", cfg.Upper}, {"EXPORT_BINPKGS", cfg.ExpBinPkg},
		{"EXPORT_GENERATED_FILES", cfg.ExpGen}} {
		if r.Chance(1, 4) {
			keys = append(keys, x)
		}
	}
	// the program `layercake chroot` starts: a stand-in that checks how it was started
	keys = append(keys, kv{"CHROOT_EXEC", lcw.ChrootStub})
	for i := len(keys) - 1; i > 0; i-- {
		j := r.Intn(i + 1)
		keys[i], keys[j] = keys[j], keys[i]
	}
	render := func(ks []kv, next string) string {
		out := r.Pick([]string{"", "# layercake configuration\n", "\n// site settings\n\n"})
		for _, x := range ks {
			k := x.k
			if r.Chance(1, 4) {
				k = strings.ToLower(k)
			}
			out += r.Pick([]string{"", "  ", "\t"}) + k + r.Pick([]string{" = ", "=", "  =\t", " ="}) + x.v + r.Pick([]string{"", " ", "\t"}) + "\n"
			if r.Chance(1, 5) {
				out += r.Pick([]string{"\n", "# comment\n", "   \n"})
			}
		}
		if next != "" {
			out += "CONFIGFILE = " + next + "\n"
		}
		return out
	}
	in.Conf = cfg.Base + "/" + r.Pick([]string{"lc.conf", "site.conf", "layercake.conf"})
	first, second := keys, []kv(nil)
	if len(keys) > 1 && r.Chance(1, 3) { // a chain of two files: the first one wins where both speak
		cut := 1 + r.Intn(len(keys)-1)
		first, second = keys[:cut], keys[cut:]
		if r.Chance(1, 2) { // the second file repeats a key of the first with another value: overridden
			second = append(append([]kv{}, second...), kv{first[0].k, "/somewhere/else"})
		}
	}
	next := ""
	if second != nil {
		next = cfg.Base + "/second.conf"
		in.FS = append(in.FS, lcw.Entry{Path: lcw.B(next), Kind: "f", Data: lcw.B(render(second, ""))})
	}
	in.FS = append(in.FS, lcw.Entry{Path: lcw.B(in.Conf), Kind: "f", Data: lcw.B(render(first, next))})
}

// removeForced: a populated layer whose gentle removal cannot work because <name>~removed is taken
// (left by an earlier remove of a layer of that name, or foreign), removed again -- with and
// without the global switch -force, which has no documented meaning for remove
func removeForced(r *rng.R) lcw.Input {
	ws := lcw.GenWorld(r, 4, true)
	t := pickLayer(r, ws)
	for i := range ws.Layers {
		if ws.Layers[i].Name == t.Name && len(ws.Layers[i].Files) == 0 {
			ws.Layers[i].Files = []string{r.Pick([]string{"notes.txt", "build/usr/data.bin", "packages/app-1.tbz2", "overlayfs/keep.txt"})}
		}
	}
	cfg := lcw.StdCfg(ws.BaseName)
	foreign := r.Chance(1, 2)
	if foreign {
		ws.Foreign = append(ws.Foreign, lcw.Entry{Path: lcw.B(cfg.Layers + "/" + t.Name + "~removed/keep.txt"), Kind: "f", Data: "old"})
	}
	in := lcw.BuildInput(ws)
	name := t.Name
	if !foreign { // the name has been used, populated and removed before
		name = "again"
		in.Steps = append(in.Steps, step("add", name, "", false),
			lcw.StepIn{Cmd: lcw.Cmd{Kind: "edit", A: cfg.Layers + "/" + name + "/first.txt", B: "first life\n"}},
			step("remove", name, "", false), step("add", name, "", false),
			lcw.StepIn{Cmd: lcw.Cmd{Kind: "edit", A: cfg.Layers + "/" + name + "/" + r.Pick([]string{"second.txt", "build/root/.profile"}), B: "second life\n"}})
	}
	last := step("remove", name, "", false)
	last.Env = lcw.Env{Force: r.Chance(3, 4), Verbose: r.Chance(1, 4)}
	in.Steps = append(in.Steps, last, step("probe", "", "", false))
	in.CLI = 1 + r.Intn(6)
	return in
}

// remountAfterExportChange: a stack is mounted, then what has to be exported changes while it
// stays mounted (an export directive is written into a layerconfig of the chain), then the top
// layer is mounted again: the second mount has nothing to mount but the export links to renew
func remountAfterExportChange(r *rng.R) lcw.Input {
	ws := lcw.GenWorld(r, 4, true)
	for i := range ws.Layers { // ordinary, mountable layers
		ws.Layers[i].Imports = lcw.GenImports(r, lcw.StdCfg(ws.BaseName), true)
		ws.Layers[i].Exports = nil
	}
	in := lcw.BuildInput(ws)
	top := pickLayer(r, ws)
	chain := chainOf(ws, top.Name)
	vn := chain[r.Intn(len(chain))]
	var v lcw.LayerSpec
	for _, l := range ws.Layers {
		if l.Name == vn {
			v = l
		}
	}
	v.Exports = []lcw.Imp{{Fstype: "symlink", Source: r.Pick([]string{"/var/cache/binpkgs", "/out", "/usr"}),
		Mount: r.Pick([]string{"$$package_export", "$$file_export"})}}
	in.Steps = append(in.Steps, step("mount", top.Name, "", false),
		lcw.StepIn{Cmd: lcw.Cmd{Kind: "edit", A: in.Cfg.Layers + "/" + v.Name + "/layerconfig", B: lcw.ConfigText(v)}},
		step("mount", top.Name, "", false), step("probe", "", "", false))
	in.CLI = 1 + r.Intn(6)
	return in
}

// spelledConfig: the layers (or exports) directory is configured as an ABSOLUTE path in a spelling
// that is not the canonical one (trailing or doubled slash, "/./"), and a fresh base layer imports a
// directory inside the layers directory that does not exist yet (the skeleton's $$base/packages,
// which mount creates): the layer is mountable, mount works, list shows it mounted
func spelledConfig(r *rng.R) lcw.Input {
	ws := lcw.WorldSpec{BaseName: r.Pick([]string{"b", "lc root"}), HostLayout: "plain"}
	cfg := lcw.StdCfg(ws.BaseName)
	ws.HostDirs = []string{cfg.Base + "/host/repos"}
	imps := []lcw.Imp{{Fstype: "rbind", Source: "/dev", Mount: "/dev"}, {Fstype: "proc", Source: "/proc", Mount: "/proc"},
		{Fstype: "rbind", Source: cfg.Base + "/host/repos", Mount: "/var/db/repos"},
		{Fstype: "rbind", Source: r.Pick([]string{"$$base/packages", "$$self/packages", "$$self/generated"}), Mount: "/var/cache/binpkgs"}}
	name := r.Pick([]string{"base1", "gcc", "x"})
	ws.Layers = []lcw.LayerSpec{{Name: name, HasConfig: true, HasBuild: true, Minimal: true, Mountpoints: true, Imports: imps}}
	top := name
	if r.Chance(1, 2) {
		ws.Layers = append(ws.Layers, lcw.LayerSpec{Name: "der", Base: name, HasConfig: true, HasBuild: true, Minimal: true,
			Mountpoints: true, HasWork: true, HasUpper: true, Imports: imps[:3]})
		top = "der"
	}
	in := lcw.BuildInput(ws)
	key, abs := "LAYERS", cfg.Layers
	if r.Chance(1, 4) {
		key, abs = "EXPORTS", cfg.Exports
	}
	i := strings.LastIndexByte(abs, '/')
	val := r.Pick([]string{abs + "/", abs[:i] + "/" + abs[i:], abs[:i] + "/." + abs[i:], abs + "/."})
	in.Conf = cfg.Base + "/lc.conf"
	in.ConfBase = true
	in.FS = append(in.FS, lcw.Entry{Path: lcw.B(in.Conf), Kind: "f", Data: lcw.B("# site\n" + key + " = " + val + "\n")})
	in.CLI = 1 + r.Intn(6)
	in.Steps = append(in.Steps, step("list", "", "", false), step("mount", top, "", false), step("probe", "", "", false),
		step("list", "", "", false), step("umount", "", "", true))
	return in
}
