package cdom

import (
	"path"

	"lcverif/lcw"
	"lcverif/rk"
	"lcverif/rng"
)

// Covered (hidden) mounts -- round 5, C03.
//
// A mount below a build root stays in the mount table when somebody later mounts something on
// one of the ANCESTOR directories of its mountpoint (import at <build>/var/db/repos, then a
// tmpfs or a plain bind on <build>/var/db, or on <build> itself): the older mount is hidden,
// umount(2) of its path fails until the cover is gone (coq/Model/Kernel.v: hidden_at).  Code
// that unmounts a layer has to report that failure; a success must leave nothing mounted.

// ancestorsBelow lists the directories from the build root (inclusive) down to the parent of
// mp (mp lies strictly below bld).
func ancestorsBelow(bld, mp string) []string {
	var out []string
	for d := path.Dir(mp); len(d) >= len(bld); d = path.Dir(d) {
		out = append([]string{d}, out...)
		if d == bld || d == "/" {
			break
		}
	}
	return out
}

// coverMount: a hand-made mount on dir that covers what is mounted below it.  Kinds: a tmpfs, a
// plain (non-recursive) bind of a host directory, a plain bind of the directory onto itself.
func coverMount(r *rng.R, cfg lcw.Cfg, dir string) lcw.StepIn {
	switch r.Intn(4) {
	case 0:
		return kmount(cfg.Base+"/host/repos", dir, "", 4096, "")
	case 1:
		return kmount(dir, dir, "", 4096, "")
	default:
		return kmount(r.Pick([]string{"tmpfs", "none", "cover"}), dir, "tmpfs", 0, "")
	}
}

var deepImports = func(cfg lcw.Cfg) []lcw.Imp {
	return []lcw.Imp{
		{Fstype: "rbind", Source: cfg.Base + "/host/repos", Mount: "/var/db/repos"},
		{Fstype: "bind", Source: cfg.Base + "/host/repos", Mount: "/var/cache/distfiles"},
		{Fstype: "rbind", Source: "$$base/packages", Mount: "/var/cache/binpkgs"},
		{Fstype: "bind", Source: "$$self/generated", Mount: "/mnt/gen"},
		{Fstype: "tmpfs", Source: "tmpfs", Mount: "/tmp/scratch"},
		{Fstype: "bind", Source: cfg.Base + "/host/repos", Mount: "/usr/local/portage/overlay"},
		{Fstype: "proc", Source: "/proc", Mount: "/proc"},
		{Fstype: "rbind", Source: "/dev", Mount: "/dev"},
	}
}

// coveredMount: a mounted layer, then a hand-made mount over an ancestor directory of one of its
// mounts (between the build root and the mountpoint), then umount L / umount -all; sometimes the
// cover is then taken away by hand and the umount repeated (which must now succeed); a probe
// at the end.  The victim is a base layer more often than not: there nothing is mounted on the
// build root itself, so the covered mount is the only thing in the way.
func coveredMount(r *rng.R) lcw.Input {
	ws, in := world(r, true)
	cfg := in.Cfg
	// the victim: prefer a base layer
	vi := r.Intn(len(ws.Layers))
	if r.Chance(2, 3) {
		for i, l := range ws.Layers {
			if l.Base == "" {
				vi = i
				break
			}
		}
	}
	v := &ws.Layers[vi]
	// make sure it is healthy and has imports at some depth below the build root
	v.HasConfig, v.HasBuild, v.Minimal, v.Mountpoints, v.RawConfig = true, true, true, true, ""
	v.HasPackages, v.HasGen = true, true
	if v.Base != "" {
		v.HasWork, v.HasUpper = true, true
	}
	pool := deepImports(cfg)
	have := map[string]bool{}
	for _, m := range v.Imports {
		have[cleanAbs(m.Mount)] = true
	}
	for k := 1 + r.Intn(3); k > 0; k-- {
		m := pool[r.Intn(len(pool))]
		if !have[m.Mount] {
			have[m.Mount] = true
			v.Imports = append(v.Imports, m)
		}
	}
	in = lcw.BuildInput(ws)
	bld := buildPath(cfg, v.Name)
	// what will be covered: one of the victim's import mountpoints strictly below the build root
	var cands []string
	for _, m := range v.Imports {
		if mp := bld + cleanAbs(m.Mount); mp != bld+"/" && len(cleanAbs(m.Mount)) > 1 {
			cands = append(cands, mp)
		}
	}
	target := cands[r.Intn(len(cands))]
	anc := ancestorsBelow(bld, target)
	dir := anc[len(anc)-1-r.Intn(len(anc))] // any level, the build root itself included
	if len(anc) > 1 && r.Chance(2, 3) {
		dir = anc[1+r.Intn(len(anc)-1)] // preferably strictly between the build root and the mountpoint
	}
	if r.Chance(1, 4) { // other layers mounted as well
		in.Steps = append(in.Steps, step("mount", pickLayer(r, ws).Name, "", false))
	}
	in.Steps = append(in.Steps, step("mount", v.Name, "", false))
	in.Steps = append(in.Steps, coverMount(r, cfg, dir))
	um := func() lcw.StepIn {
		var s lcw.StepIn
		if r.Chance(2, 3) {
			s = step("umount", v.Name, "", false)
		} else {
			s = step("umount", "", "", true)
		}
		if r.Chance(1, 5) {
			s.Users = genUsers(r, ws, 2)
		}
		if r.Chance(1, 8) {
			s.Env.Force = true
		}
		return s
	}
	in.Steps = append(in.Steps, um())
	switch r.Intn(4) {
	case 0: // the cover goes away by hand: now the layer can be unmounted
		in.Steps = append(in.Steps, kumount(dir), um())
	case 1: // the same command again
		in.Steps = append(in.Steps, um())
	}
	in.Steps = append(in.Steps, step("probe", "", "", false))
	return in
}

// refereeCovered: the covered-mount scenario as a script for the real-kernel referee (the rule
// hidden_at of the kernel model stays refereed).  The cover is a plain bind of the directory onto
// itself: the file tree looks the same with and without it, which is what the simulation assumes.
func refereeCovered(r *rng.R, ws lcw.WorldSpec, cfg lcw.Cfg) (script []lcw.Cmd, manual map[int]bool) {
	manual = map[int]bool{}
	add := func(c lcw.Cmd, m bool) {
		if m {
			manual[len(script)] = true
		}
		script = append(script, c)
	}
	// a layer with an import at depth two or more
	var v *lcw.LayerSpec
	var target string
	for i := range ws.Layers {
		l := &ws.Layers[(i+r.Intn(len(ws.Layers)))%len(ws.Layers)]
		for _, m := range l.Imports {
			if mp := cleanAbs(m.Mount); len(ancestorsBelow("/", mp)) > 1 {
				v, target = l, buildPath(cfg, l.Name)+mp
			}
		}
		if v != nil {
			break
		}
	}
	if v == nil {
		return nil, nil
	}
	bld := buildPath(cfg, v.Name)
	anc := ancestorsBelow(bld, target)
	dir := anc[1+r.Intn(len(anc)-1)]
	add(lcw.Cmd{Kind: "mount", A: v.Name}, false)
	add(lcw.Cmd{Kind: "probe"}, false)
	add(kmount(dir, dir, "", 4096, "").Cmd, true)
	if r.Bool() {
		add(lcw.Cmd{Kind: "umount", A: v.Name}, false)
	} else {
		add(lcw.Cmd{Kind: "umount", Flag: true}, false)
	}
	add(lcw.Cmd{Kind: "probe"}, false)
	add(kumount(dir).Cmd, true)
	add(lcw.Cmd{Kind: "umount", Flag: true}, false)
	add(lcw.Cmd{Kind: "probe"}, false)
	return script, manual
}

func rkStep(c lcw.Cmd, manual bool) rk.Step {
	if manual {
		cc := c
		return rk.Step{Manual: &cc}
	}
	return rk.Step{Argv: argvOf(c)}
}
