package cdom

import (
	"lcverif/lcw"
	"lcverif/rng"
)

// hiddenDir draws a path (with leading slash) whose FIRST component begins with a dot and is
// neither "." nor "..": /.ccache, /.cache/x, /..data, /... , /.a/b/c -- an ordinary directory
// name to path.Clean, to the kernel and to layercake; anything that decides "is below" from the
// first byte of a relative path (filepath.Rel and a look at rel[0]) gets it wrong.
func hiddenDir(r *rng.R) string {
	first := "." + r.Pick([]string{"ccache", "cache", "git", "config", "x", "local", ".data", "..", "-", "7"})
	if first == "." || first == ".." { // not names: guard for edits of the pool
		first = "..x"
	}
	p := "/" + first
	for k := r.Heavy(2); k > 0; k-- {
		p += "/" + r.Pick([]string{"x", "share", ".inner", "obj", "a-b", "..up"})
	}
	return p
}

// hiddenImport: an import line whose mountpoint is a hidden directory directly below the build
// root.  Sources are directories that exist in (nearly) every generated world, or /proc.
func hiddenImport(r *rng.R, cfg lcw.Cfg, mp string) lcw.Imp {
	switch r.Intn(5) {
	case 0:
		return lcw.Imp{Fstype: "proc", Source: "/proc", Mount: mp}
	case 1:
		return lcw.Imp{Fstype: "rbind", Source: cfg.Base + "/host/repos", Mount: mp}
	case 2:
		return lcw.Imp{Fstype: "bind", Source: "$$self/generated", Mount: mp}
	default:
		return lcw.Imp{Fstype: "bind", Source: cfg.Base + "/host/repos", Mount: mp}
	}
}

// hiddenMounts: a layer whose ONLY mount (or one of whose mounts) sits at or below a hidden
// directory directly under its build root -- made by hand (a compiler cache bound onto
// build/.ccache), left over from a partial unmount, or configured by import lines that all name
// dot-directories -- and then the commands that must see it: remove (with and without -files),
// rename, rebase of the layer and of its parent; umount of the layer / of everything and a probe.
func hiddenMounts(r *rng.R, forUmount bool) lcw.Input {
	ws, in := world(r, true)
	cfg := in.Cfg
	if r.Chance(3, 4) { // every host directory an import of the pool may name exists: most chains are mountable
		ws.HostDirs = []string{cfg.Base + "/host/repos", cfg.Base + "/host/distfiles", cfg.Base + "/host/100%sure",
			cfg.Layers + "-shared/distfiles"}
		for i := range ws.Layers {
			ws.Layers[i].HasGen, ws.Layers[i].HasPackages = true, true
		}
	}
	// the victim: preferably a layer with a parent (so that the parent's protection is exercised too)
	vi := r.Intn(len(ws.Layers))
	if r.Chance(2, 3) {
		for i, l := range ws.Layers {
			if l.Base != "" {
				vi = i
				break
			}
		}
	}
	v := &ws.Layers[vi]
	v.HasConfig, v.HasBuild, v.Minimal, v.Mountpoints, v.RawConfig = true, true, true, true, ""
	if v.Base != "" {
		v.HasWork, v.HasUpper = true, true
	}
	mode := r.Intn(4)
	// 0: by hand on an unmounted layer             (foreign mount, the only one)
	// 1: configured imports, all on dot-directories (base layer: mount makes them the only mounts;
	//    derived layer: the overlay is there too, then the overlay's submounts are what is left
	//    after the other imports went by hand)
	// 2: configured next to ordinary imports, layer mounted, everything else unmounted by hand
	// 3: by hand next to the ordinary mounts of a mounted layer
	nh := 1 + r.Intn(2)
	var hidden []string
	for len(hidden) < nh {
		h := hiddenDir(r)
		dup := false
		for _, x := range hidden {
			dup = dup || x == h
		}
		if !dup {
			hidden = append(hidden, h)
		}
	}
	var himps []lcw.Imp
	for _, h := range hidden {
		himps = append(himps, hiddenImport(r, cfg, h))
	}
	switch mode {
	case 1:
		v.Imports = himps
	case 2:
		if r.Bool() {
			v.Imports = append(append([]lcw.Imp{}, v.Imports...), himps...)
		} else {
			v.Imports = append(append([]lcw.Imp{}, himps...), v.Imports...)
		}
	default:
		for _, h := range hidden { // the directories exist, nothing is configured on them
			ws.Foreign = append(ws.Foreign, lcw.Entry{Path: lcw.B(buildPath(cfg, v.Name) + h), Kind: "d"})
		}
	}
	if mode == 1 || mode == 2 {
		v.HasGen = true
	}
	in = lcw.BuildInput(ws)
	bp := buildPath(cfg, v.Name)
	byHand := func() {
		for _, h := range hidden {
			if r.Chance(1, 2) {
				in.Steps = append(in.Steps, kmount("tmpfs", bp+h, "tmpfs", 0, ""))
			} else {
				in.Steps = append(in.Steps, kmount(cfg.Base+"/host/repos", bp+h, "", 4096, ""))
			}
		}
	}
	switch mode {
	case 0:
		byHand()
	case 1:
		in.Steps = append(in.Steps, step("mount", v.Name, "", false))
	case 2:
		in.Steps = append(in.Steps, step("mount", v.Name, "", false))
		if r.Chance(2, 3) { // the ordinary mounts go by hand, last first; the hidden ones stay
			mps := mountpointsOf(cfg, *v)
			for i := len(mps) - 1; i >= 0; i-- {
				keep := mps[i] == bp && v.Base != "" // the overlay cannot go while something is mounted in it
				for _, h := range hidden {
					keep = keep || mps[i] == bp+cleanAbs(h)
				}
				if !keep {
					in.Steps = append(in.Steps, kumount(mps[i]))
				}
			}
		}
	default:
		in.Steps = append(in.Steps, step("mount", v.Name, "", false))
		byHand()
	}
	if r.Chance(1, 4) {
		in.Steps = append(in.Steps, step("probe", "", "", false))
	}
	// the command under test
	t := v.Name
	if v.Base != "" && r.Chance(1, 3) {
		t = v.Base // the parent: protected through its direct child
	}
	others := append(lcw.LayerNames(ws), "")
	k := r.Intn(8)
	if forUmount && r.Chance(3, 4) { // the umount stream: mostly the two umount forms
		k = 6 + r.Intn(2)
	}
	switch k {
	case 0:
		in.Steps = append(in.Steps, step("remove", v.Name, "", false))
	case 1:
		in.Steps = append(in.Steps, step("remove", v.Name, "", true))
	case 2, 3:
		in.Steps = append(in.Steps, step("rename", t, r.Pick([]string{"newname", "hidden-1", "zz"}), false))
	case 4, 5:
		in.Steps = append(in.Steps, step("rebase", t, r.Pick(others), false))
	case 6:
		in.Steps = append(in.Steps, step("umount", v.Name, "", false))
		if r.Chance(1, 2) { // ... and whether the layer can be changed afterwards
			in.Steps = append(in.Steps, step("rename", v.Name, "newname", false))
		}
	default:
		in.Steps = append(in.Steps, step("umount", "", "", true))
		if r.Chance(1, 2) {
			in.Steps = append(in.Steps, step("remove", v.Name, "", r.Bool()))
		}
	}
	in.Steps = append(in.Steps, step("probe", "", "", false))
	return in
}
