package cdom

import (
	"os"

	"lcverif/rng"
)

// Round 5: the -o path of a stagemaker run is not always fresh.  The run under test may find a
// file under its output name (random bytes: empty, shorter than, as long as, a little or much
// longer than the complete output).  Exit status 0 then still means "the complete output was
// written": the file must be exactly as long as the complete output (C10.s_file_ok; the
// content side -- the file read back in full is the archive -- is C07's, harness/c07/r5_outfile.go).

func genStagePrior(r *rng.R, in *StageInput) {
	if in.Sink != "none" && in.Sink != "limit" && in.Sink != "badcomp" {
		return
	}
	if in.Sink == "limit" && r.Chance(1, 3) { // also limits the output fits under, with something there already
		in.Limit, in.Tail = 512*(400+r.Intn(400)), 0
	}
	if !r.Chance(2, 3) {
		return
	}
	in.HasPrior = true
	switch x := r.Intn(10); {
	case x < 1:
		in.PriorPermille = 0
	case x < 3:
		in.PriorPermille = r.Intn(1000)
	case x < 4:
		in.PriorPermille = 1000
	case x < 6:
		in.PriorPermille, in.PriorExtra = 1000, []int{1, 511, 512, 513, 1024, 10240}[r.Intn(6)]
	default:
		in.PriorPermille, in.PriorExtra = 1200+r.Intn(6000), r.Intn(3000)
	}
}

// stagePrior puts the file there and returns its length.  With a file-size limit the file is
// kept below the limit (a file that is longer than the limit is another experiment: the limit
// concerns writes beyond it, not the file that exists).
func stagePrior(path string, in StageInput, size int64) int {
	n := int(size*int64(in.PriorPermille)/1000) + in.PriorExtra
	if n > 4<<20 {
		n = 4 << 20
	}
	if in.Sink == "limit" && n > in.Limit {
		n = in.Limit
	}
	b := make([]byte, n)
	r := rng.New(uint64(n)*2654435761 + uint64(in.Mode))
	for i := range b {
		if i%8 == 0 || b[i] == 0 {
			b[i] = byte(1 + r.Intn(255))
		}
	}
	for i := range b {
		if b[i] == 0 {
			b[i] = byte(1 + (i*131)%255)
		}
	}
	if err := os.WriteFile(path, b, 0644); err != nil {
		panic(err)
	}
	return n
}
