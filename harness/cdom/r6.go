package cdom

import (
	"lcverif/lcw"
	"lcverif/rng"
)

// stackedOverOverlay: a derived layer is mounted and something else is then mounted ON TOP of its
// overlay (on the same mountpoint: a tmpfs, a bind) -- the overlay is still there and still has the
// parent's build directory as its lower directory, so the parent stays protected: rename, rebase,
// remove and umount of the parent must be refused
func stackedOverOverlay(r *rng.R) lcw.Input {
	ws := lcw.WorldSpec{BaseName: r.Pick([]string{"b", "b", "lc root"}), HostLayout: r.Pick([]string{"plain", "sepfs"})}
	cfg := lcw.StdCfg(ws.BaseName)
	ws.HostDirs = []string{cfg.Base + "/host/repos", cfg.Base + "/host/distfiles"}
	base := r.Pick([]string{"base1", "gcc", "a"})
	der := r.Pick([]string{"dev_1", "kde", "zz9"})
	ws.Layers = []lcw.LayerSpec{
		{Name: base, HasConfig: true, HasBuild: true, Minimal: true, Mountpoints: true, Imports: lcw.GenImports(r, cfg, true), HasPackages: true},
		{Name: der, Base: base, HasConfig: true, HasBuild: true, Minimal: true, Mountpoints: true, HasWork: true, HasUpper: true,
			Imports: lcw.GenImports(r, cfg, r.Chance(1, 2))},
	}
	if r.Chance(1, 3) {
		ws.Layers = append(ws.Layers, lcw.LayerSpec{Name: "other", HasConfig: true, HasBuild: true, Minimal: true, Mountpoints: true,
			Imports: lcw.GenImports(r, cfg, true)})
	}
	in := lcw.BuildInput(ws)
	in.Steps = append(in.Steps, step("mount", der, "", false))
	bp := buildPath(cfg, der)
	if r.Chance(2, 3) {
		in.Steps = append(in.Steps, kmount("tmpfs", bp, "tmpfs", 0, ""))
	} else {
		in.Steps = append(in.Steps, kmount(cfg.Base+"/host/distfiles", bp, "", 4096, ""))
	}
	switch r.Intn(5) {
	case 0:
		in.Steps = append(in.Steps, step("rename", base, "renamed", false))
	case 1:
		in.Steps = append(in.Steps, step("rebase", base, r.Pick([]string{"other", ""}), false))
	case 2:
		in.Steps = append(in.Steps, step("remove", base, "", r.Chance(1, 2)))
	case 3:
		in.Steps = append(in.Steps, step("umount", base, "", false))
	default:
		in.Steps = append(in.Steps, step("umount", "", "", true))
	}
	in.Steps = append(in.Steps, step("probe", "", "", false))
	return in
}
