package cdom

import (
	"fmt"
	"os"
	"sort"
	"strings"

	"lcverif/common"
	"lcverif/lcw"
	"lcverif/rk"
	"lcverif/rng"
)

// Real-kernel referee: the same script of layercake commands is run (a) in-process on the
// simulated kernel and (b) with the real binary on the real kernel in a private mount
// namespace; the projected observables must agree.  This validates coq/Model/Kernel.v (and
// harness/simk) -- the part of the trusted base that is "modelled, not verified".

var stateNames = []string{"defined but empty", "error", "incomplete setup", "not yet populated", "build directories set up",
	"mountable", "partially mounted", "mounted and ready", "mounted; cannot be unmounted"}

func refWorld(r *rng.R) (lcw.WorldSpec, lcw.Input) {
	cfg := lcw.StdCfg("b")
	pool := []lcw.Imp{{Fstype: "rbind", Source: "/dev", Mount: "/dev"}, {Fstype: "proc", Source: "/proc", Mount: "/proc"},
		{Fstype: "rbind", Source: "/sys", Mount: "/sys"},
		{Fstype: "rbind", Source: cfg.Base + "/host/repos", Mount: "/var/db/repos"},
		{Fstype: "rbind", Source: "$$base/packages", Mount: "/var/cache/binpkgs"},
		{Fstype: "bind", Source: "$$self/generated", Mount: "/mnt/gen"}}
	names := []string{"base1", "mid", "leaf", "other"}
	ws := lcw.WorldSpec{BaseName: "b", HostLayout: "plain", HostDirs: []string{cfg.Base + "/host/repos"}}
	n := 1 + r.Intn(4)
	for i := 0; i < n; i++ {
		l := lcw.LayerSpec{Name: names[i], HasConfig: true, HasBuild: true, Minimal: true, Mountpoints: true,
			HasPackages: true, HasGen: true}
		if i > 0 && i < 3 {
			l.Base = names[i-1]
			l.HasWork, l.HasUpper, l.UpperMirrors = true, true, true
		}
		for _, m := range pool {
			if r.Chance(2, 3) {
				l.Imports = append(l.Imports, m)
			}
		}
		ws.Layers = append(ws.Layers, l)
	}
	return ws, lcw.BuildInput(ws)
}

func argvOf(c lcw.Cmd) []string {
	switch c.Kind {
	case "mount", "mkdirs":
		return []string{c.Kind, c.A}
	case "umount":
		if c.Flag {
			return []string{"umount", "-all"}
		}
		if c.A == "" {
			return []string{"umount"}
		}
		return []string{"umount", c.A}
	case "probe":
		return []string{"list"}
	}
	return []string{c.Kind}
}

// projection: per configured mountpoint (overlay + imports of every layer) how many mounts sit
// exactly there, and the file-system type of the topmost
func project(cfg lcw.Cfg, ws lcw.WorldSpec, mounts [][2]string) []string {
	cnt := map[string]int{}
	top := map[string]string{}
	for _, m := range mounts {
		cnt[m[0]]++
		top[m[0]] = m[1]
	}
	var out []string
	for _, l := range ws.Layers {
		for _, mp := range mountpointsOf(cfg, l) {
			t := top[mp]
			if t != "overlay" && t != "proc" && t != "" {
				t = "bind"
			}
			out = append(out, fmt.Sprintf("%s#%d#%s", strings.TrimPrefix(mp, cfg.Layers), cnt[mp], t))
		}
	}
	sort.Strings(out)
	return out
}

func parseList(out string) map[string]string {
	res := map[string]string{}
	for _, line := range strings.Split(out, "\n") {
		f := strings.Fields(line)
		if len(f) < 2 || f[0] == "Layer" || strings.HasPrefix(f[0], "=") {
			continue
		}
		for _, sn := range stateNames {
			if strings.Contains(line, sn) {
				res[f[0]] = sn
			}
		}
	}
	return res
}

func refereeOne(r *rng.R) map[string]interface{} {
	ws, in := refWorld(r)
	var script []lcw.Cmd
	for k := 2 + r.Intn(5); k > 0; k-- {
		t := pickLayer(r, ws).Name
		switch r.Intn(7) {
		case 0, 1, 2:
			script = append(script, lcw.Cmd{Kind: "mount", A: t})
		case 3:
			script = append(script, lcw.Cmd{Kind: "umount", A: t})
		case 4:
			script = append(script, lcw.Cmd{Kind: "umount", Flag: true})
		case 5:
			script = append(script, lcw.Cmd{Kind: "umount"})
		default:
			script = append(script, lcw.Cmd{Kind: "mkdirs", A: t})
		}
		script = append(script, lcw.Cmd{Kind: "probe"})
	}
	manual := map[int]bool{}
	if r.Chance(1, 3) { // a covered (hidden) mount, then umount: keeps hidden_at of the kernel model refereed (r5_c03.go)
		if s, m := refereeCovered(r, ws, in.Cfg); s != nil {
			script, manual = s, m
		}
	}
	for _, c := range script {
		in.Steps = append(in.Steps, lcw.StepIn{Cmd: c})
	}
	// (a) simulated
	_, sim, err := lcw.Run(in)
	if err != nil {
		return map[string]interface{}{"error": err.Error()}
	}
	// (b) real
	req := rk.Request{In: in, Bin: os.Getenv("LCV_RUN") + "/layercake"}
	for i, c := range script {
		req.Steps = append(req.Steps, rkStep(c, manual[i]))
	}
	resp, err := rk.Run(req)
	if err != nil {
		return map[string]interface{}{"error": err.Error()}
	}
	var diffs []string
	for i, c := range script {
		simOK := sim[i].Res == "ok"
		realOK := resp.Steps[i].Exit == 0
		if simOK != realOK {
			diffs = append(diffs, fmt.Sprintf("step %d %v: sim %s (%s) real exit %d (%s)", i, argvOf(c), sim[i].Res, sim[i].Err,
				resp.Steps[i].Exit, strings.TrimSpace(resp.Steps[i].Out)))
		}
		var sm, rm [][2]string
		for _, m := range sim[i].Kernel.Tab {
			sm = append(sm, [2]string{m.MP, m.Fstype})
		}
		for _, m := range resp.Steps[i].Mounts {
			rm = append(rm, [2]string{m.MP, m.Fstype})
		}
		ps, pr := project(in.Cfg, ws, sm), project(in.Cfg, ws, rm)
		if strings.Join(ps, ",") != strings.Join(pr, ",") {
			diffs = append(diffs, fmt.Sprintf("step %d %v: mounts sim %v real %v", i, argvOf(c), ps, pr))
		}
		if c.Kind == "probe" && simOK && realOK {
			real := parseList(resp.Steps[i].Out)
			for _, l := range sim[i].Layers {
				if l.State >= 0 && l.State < len(stateNames) && real[l.Name] != stateNames[l.State] {
					diffs = append(diffs, fmt.Sprintf("step %d state of %s: sim %q real %q", i, l.Name, stateNames[l.State], real[l.Name]))
				}
			}
		}
	}
	return map[string]interface{}{"script": script, "agree": len(diffs) == 0, "diffs": diffs, "steps": len(script)}
}

func init() {
	common.Referees["cdom"] = func(rr common.Rand, n int, emit func(map[string]interface{})) {
		r := rng.New(rr.U64())
		if !rk.Available() {
			emit(map[string]interface{}{"skipped": "unshare -m / overlay mounts are not available here"})
			return
		}
		for i := 0; i < n; i++ {
			emit(refereeOne(rng.New(r.U64())))
		}
	}
}
