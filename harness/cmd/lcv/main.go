// lcv: harness driver.  lcv <prop> gen -seed S -n N -tier T -out F
//
//	lcv <prop> replay -in inputs.json -out F
package main

import (
	"encoding/json"
	"flag"
	"fmt"
	"os"

	"lcverif/common"
	"lcverif/lcw"
	"lcverif/rk"
	"lcverif/rng"
)

// property packages register themselves; each is linked in by a reg_<prop>.go file in this directory

func die(f string, a ...interface{}) {
	fmt.Fprintf(os.Stderr, "lcv: "+f+"\n", a...)
	os.Exit(2)
}

func main() {
	if len(os.Args) >= 2 && os.Args[1] == "rk-child" {
		rk.ChildMain()
		return
	}
	if len(os.Args) >= 2 && os.Args[1] == "live-user" {
		lcw.LiveUserMain(os.Args[2:])
		return
	}
	if len(os.Args) >= 2 && os.Args[1] == "kernel-helper" {
		lcw.KernelHelperMain(os.Args[2:])
		return
	}
	if len(os.Args) >= 3 && os.Args[2] == "referee" {
		ref, ok := common.Referees[os.Args[1]]
		if !ok {
			die("no referee %s", os.Args[1])
		}
		fl := flag.NewFlagSet("lcv", flag.ExitOnError)
		seed := fl.Uint64("seed", 1, "")
		n := fl.Int("n", 10, "")
		out := fl.String("out", "", "")
		fl.Parse(os.Args[3:])
		fh, err := os.Create(*out)
		if err != nil {
			die("%v", err)
		}
		ref(rng.New(*seed), *n, func(m map[string]interface{}) {
			b, _ := json.Marshal(m)
			fh.Write(append(b, '\n'))
		})
		fh.Close()
		return
	}
	if len(os.Args) < 3 {
		die("usage: lcv <prop> gen|replay ...")
	}
	p, ok := common.Registry[os.Args[1]]
	if !ok {
		die("unknown property %s", os.Args[1])
	}
	fl := flag.NewFlagSet("lcv", flag.ExitOnError)
	seed := fl.Uint64("seed", 1, "")
	n := fl.Int("n", 100, "")
	tier := fl.String("tier", "quick", "")
	out := fl.String("out", "", "")
	in := fl.String("in", "", "")
	fl.Parse(os.Args[3:])
	w, err := common.NewWriter(*out)
	if err != nil {
		die("%v", err)
	}
	emit := func(c *common.Case) {
		if err := w.Put(c); err != nil {
			die("%v", err)
		}
	}
	switch os.Args[2] {
	case "gen":
		p.Generate(rng.New(*seed), *tier, *n, emit)
	case "replay":
		data, err := os.ReadFile(*in)
		if err != nil {
			die("%v", err)
		}
		var inputs []json.RawMessage
		if err := json.Unmarshal(data, &inputs); err != nil {
			die("replay file: %v", err)
		}
		for _, raw := range inputs {
			c, err := p.Replay(raw)
			if err != nil {
				die("replay: %v", err)
			}
			emit(c)
		}
	default:
		die("unknown action %s", os.Args[2])
	}
	if err := w.Close(); err != nil {
		die("%v", err)
	}
}
