package main

import _ "lcverif/c02"
