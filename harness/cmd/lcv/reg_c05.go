package main

import _ "lcverif/c05"
