package main

import _ "lcverif/c06"
