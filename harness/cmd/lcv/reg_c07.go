package main

import _ "lcverif/c07"
