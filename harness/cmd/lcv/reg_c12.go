package main

import _ "lcverif/c12"
