package main

import _ "lcverif/c13"
