package main

import _ "lcverif/c14"
