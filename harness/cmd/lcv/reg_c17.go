package main

import _ "lcverif/c17"
