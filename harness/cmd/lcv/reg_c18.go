package main

import _ "lcverif/c18"
