package main

import _ "lcverif/c19"
