package main

import _ "lcverif/c20"
