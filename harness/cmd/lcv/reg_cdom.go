package main

import _ "lcverif/cdom"
