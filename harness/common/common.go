// Package common: case records written by the harness (one JSON object per line).
package common

import (
	"bufio"
	"encoding/json"
	"os"
)

type Case struct {
	ID         int                    `json:"id"`
	Sub        uint64                 `json:"subseed"`
	Coq        string                 `json:"coq"`
	Key        string                 `json:"key"`        // distinctness key
	Nontrivial bool                   `json:"nontrivial"` // by the property's stated rule
	Classes    []string               `json:"classes"`    // input-distribution tags
	Desc       map[string]interface{} `json:"desc"`       // human-readable input and observation
}

// Prop is what a property package registers (from its init function).
type Prop struct {
	// Generate runs n generated cases of the given tier on the implementation.
	Generate func(r Rand, tier string, n int, emit func(*Case))
	// Replay re-runs one stored input (the "input" member of a case's desc).
	Replay func(raw json.RawMessage) (*Case, error)
}

// Rand is the generator interface handed to Generate (implemented by rng.R).
type Rand interface {
	U64() uint64
}

var Registry = map[string]Prop{}

// Referees compare the simulated kernel with the real one (thorough tier); keyed by family.
var Referees = map[string]func(r Rand, n int, emit func(map[string]interface{})){}

func Register(name string, p Prop) { Registry[name] = p }

type Writer struct {
	f *os.File
	w *bufio.Writer
	n int
}

func NewWriter(path string) (*Writer, error) {
	f, err := os.Create(path)
	if err != nil {
		return nil, err
	}
	return &Writer{f: f, w: bufio.NewWriterSize(f, 1<<20)}, nil
}

func (w *Writer) Put(c *Case) error {
	c.ID = w.n
	w.n++
	b, err := json.Marshal(c)
	if err != nil {
		return err
	}
	w.w.Write(b)
	return w.w.WriteByte('\n')
}

func (w *Writer) Close() error {
	if err := w.w.Flush(); err != nil {
		return err
	}
	return w.f.Close()
}

// B is a byte string that travels through JSON as hex (JSON strings are lossy for non-UTF-8).
type B string

func (b B) MarshalJSON() ([]byte, error) {
	return json.Marshal(hexEnc(string(b)))
}
func (b *B) UnmarshalJSON(data []byte) error {
	var s string
	if err := json.Unmarshal(data, &s); err != nil {
		return err
	}
	d, err := hexDec(s)
	if err != nil {
		return err
	}
	*b = B(d)
	return nil
}
func Bs(ss []string) []B {
	out := make([]B, len(ss))
	for i, s := range ss {
		out[i] = B(s)
	}
	return out
}
func Ss(bs []B) []string {
	out := make([]string, len(bs))
	for i, s := range bs {
		out[i] = string(s)
	}
	return out
}
