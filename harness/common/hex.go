package common

import "encoding/hex"

func hexEnc(s string) string { return hex.EncodeToString([]byte(s)) }
func hexDec(s string) (string, error) {
	b, err := hex.DecodeString(s)
	return string(b), err
}
