// Package coqfmt prints Go values as Gallina terms for the generated case files.
package coqfmt

import (
	"encoding/hex"
	"strconv"
	"strings"
)

// Hx renders a byte string as (hx "…").
func Hx(s string) string { return `(hx "` + hex.EncodeToString([]byte(s)) + `")` }

func List(items []string) string { return "[" + strings.Join(items, "; ") + "]" }

func HxList(ss []string) string {
	out := make([]string, len(ss))
	for i, s := range ss {
		out[i] = Hx(s)
	}
	return List(out)
}

func Bool(b bool) string {
	if b {
		return "true"
	}
	return "false"
}

func N(n uint64) string  { return strconv.FormatUint(n, 10) + "%N" }
func Nat(n int) string   { return strconv.Itoa(n) + "%nat" }
func Z(n int64) string   { return "(" + strconv.FormatInt(n, 10) + ")%Z" }
func Some(t string) string { return "(Some " + t + ")" }
func None() string       { return "None" }
func Pair(a, b string) string { return "(" + a + ", " + b + ")" }
func App(f string, args ...string) string {
	return "(" + f + " " + strings.Join(args, " ") + ")"
}
