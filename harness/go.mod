module lcverif

go 1.21

require potano.layercake v0.0.0

replace potano.layercake => /repo
