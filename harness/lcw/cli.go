package lcw

// Process-level steps: the same step of a history is executed by the REAL BINARY cmd/layercake
// (argument parsing, command dispatch, start-up probe, exit status) instead of by calls into
// package manage.  The binary (built with -tags verif) delegates mount(2), umount(2) and the
// reading of /proc/self/mountinfo to this program (hook fs/verif_extkernel.go in the project:
// LAYERCAKE_VERIF_KERNEL), which serves them from the simulated kernel whose state lives in a
// file between the calls.  Everything else is real: the file tree, the configuration lookup,
// the scan of /proc for users.  What cannot be observed from outside a process is the probed
// layer table (StepObs.Layers); LC.step_corr skips that comparison for such a step.

import (
	"bytes"
	"encoding/json"
	"errors"
	"fmt"
	"io"
	"os"
	"os/exec"
	"sort"
	"strconv"
	"strings"
	"syscall"
	"time"

	"lcverif/c12"
	"lcverif/simk"
)

const kernelStateEnv = "LCV_SIMK_STATE"

// ChrootStub stands in for chroot(1) (configuration key CHROOT_EXEC) in process-level steps: it
// succeeds iff it was started the way the manual says `layercake chroot <layer>` starts the chroot
// program -- one argument, the layer's build directory, and LAYERCAKE_LAYER=<layer> in the
// environment (the harness passes what it expects in LCV_EXPECT_*).
const ChrootStub = ScratchBase + "/.chroot-stub"

const chrootStubText = "#!/bin/sh\n[ $# -eq 1 ] && [ \"$1\" = \"$LCV_EXPECT_DIR\" ] && [ \"$LAYERCAKE_LAYER\" = \"$LCV_EXPECT_LAYER\" ]\n"

func writeChrootStub() error { return os.WriteFile(ChrootStub, []byte(chrootStubText), 0755) }

// CLIAvailable: the project tree the harness was built from has the external-kernel hook and
// the binary is there.  (Without the hook the binary would issue real mount(2) calls.)
func CLIAvailable() bool {
	repo, run := os.Getenv("LCV_REPO"), os.Getenv("LCV_RUN")
	if repo == "" || run == "" {
		return false
	}
	if _, err := os.Stat(repo + "/fs/verif_extkernel.go"); err != nil {
		return false
	}
	_, err := os.Stat(run + "/layercake")
	return err == nil
}

// cliArgv renders the step as a command line (nil: this kind of step has no process-level form).
// The global switches are put at varying positions: they "may be specified anywhere".
func cliArgv(in Input, st StepIn, salt int) []string {
	cfg := in.Cfg
	var cmd []string
	c := st.Cmd
	switch c.Kind {
	case "init":
		cmd = []string{"init"}
	case "add":
		if c.A == "" {
			return nil
		}
		cmd = []string{"add", c.A}
		if c.B != "" {
			cmd = append(cmd, c.B)
		}
		if c.C != "" {
			cmd = append(cmd, "-configfile", c.C)
		}
	case "remove":
		cmd = []string{"remove", c.A}
		if c.Flag {
			cmd = append(cmd, "-files")
		}
	case "rename":
		cmd = []string{"rename", c.A, c.B}
	case "rebase":
		cmd = []string{"rebase", c.A}
		if c.B != "" {
			cmd = append(cmd, c.B)
		}
	case "mkdirs":
		cmd = []string{"mkdirs", c.A}
	case "mount":
		cmd = []string{"mount", c.A}
	case "umount":
		cmd = []string{[]string{"umount", "unmount"}[salt%2]}
		if c.A != "" {
			cmd = append(cmd, c.A)
		}
		if c.Flag {
			cmd = append(cmd, "-all")
		}
	case "shake":
		cmd = []string{"shake"}
	case "chroot":
		// only with a configuration file: it names the stand-in for chroot(1) (ChrootStub)
		if in.Conf == "" {
			return nil
		}
		cmd = []string{"chroot", c.A}
	case "list":
		cmd = []string{"list"}
	default:
		return nil
	}
	// an argument that is empty or looks like a switch cannot be passed as a positional word
	for _, a := range cmd[1:] {
		if a == "" || strings.HasPrefix(a, "-") && a != "-files" && a != "-all" && a != "-configfile" {
			return nil
		}
	}
	// a boolean switch may be written bare or with any value strconv.ParseBool accepts, and a
	// switch that is off may be written out as off
	onForms := []string{"", "", "", "=true", "=1", "=t", "=T", "=TRUE", "=True"}
	offForms := []string{"=false", "=0", "=f", "=F", "=FALSE", "=False"}
	var sw []string
	for i, x := range []struct {
		name string
		on   bool
	}{{"p", st.Env.Pretend}, {"force", st.Env.Force}, {"v", st.Env.Verbose}} {
		k := salt*7 + i*3
		if x.on {
			sw = append(sw, "-"+x.name+onForms[k%len(onForms)])
		} else if k%11 == 0 {
			sw = append(sw, "-"+x.name+offForms[k%len(offForms)])
		}
	}
	argv := []string{"-basepath", cfg.Base}
	if in.Conf != "" {
		argv = []string{"-config", in.Conf}
		if in.ConfBase && salt%2 == 0 {
			argv = []string{"-config", in.Conf, "-basepath", cfg.Base}
		} else if in.ConfBase {
			argv = []string{"-basepath", cfg.Base, "-config", in.Conf}
		}
	}
	switch salt % 3 {
	case 0: // before the command word
		argv = append(append(argv, sw...), cmd...)
	case 1: // after everything
		argv = append(append(argv, cmd...), sw...)
	default: // right after the command word
		argv = append(append(append(argv, cmd[0]), sw...), cmd[1:]...)
	}
	return argv
}

func cliEligible(in Input, st StepIn) bool {
	if cliArgv(in, st, 0) == nil {
		return false
	}
	// users of a process-level step are LIVE processes the binary finds in the real /proc: each
	// needs an existing directory to sit in
	for name, us := range st.Users {
		for _, u := range us {
			if fi, err := os.Stat(userDir(in.Cfg, name, u)); err != nil || !fi.IsDir() {
				return false
			}
		}
	}
	return true
}

func userDir(cfg Cfg, layer string, u User) string {
	if u.File == "" {
		return cfg.Layers + "/" + layer
	}
	return cfg.Layers + "/" + layer + "/" + u.File
}

type liveUser struct {
	cmd   *exec.Cmd
	stdin io.WriteCloser
}

// startLiveUser starts a process whose working directory (or, for a Root user, whose root
// directory and nothing else) is dir, and waits until it is in place.
func startLiveUser(self, dir string, root bool) (*liveUser, error) {
	mode := "cwd"
	if root {
		mode = "root"
	}
	cmd := exec.Command(self, "live-user", mode, dir)
	cmd.Dir = "/"
	stdin, err := cmd.StdinPipe()
	if err != nil {
		return nil, err
	}
	stdout, err := cmd.StdoutPipe()
	if err != nil {
		return nil, err
	}
	if err := cmd.Start(); err != nil {
		return nil, err
	}
	buf := make([]byte, 16)
	n, _ := stdout.Read(buf)
	if !strings.HasPrefix(string(buf[:n]), "ready") {
		stdin.Close()
		cmd.Wait()
		return nil, fmt.Errorf("live user in %s: %q", dir, string(buf[:n]))
	}
	return &liveUser{cmd, stdin}, nil
}

func (l *liveUser) stop() {
	l.stdin.Close()
	l.cmd.Wait()
}

// LiveUserMain: `lcv live-user cwd|root <dir>` -- take the place, say ready, stay until stdin closes.
func LiveUserMain(args []string) {
	if len(args) != 2 {
		os.Exit(2)
	}
	var err error
	if args[0] == "root" {
		// the working directory stays outside: exactly one link of this process points into the layer
		if err = os.Chdir("/"); err == nil {
			err = syscall.Chroot(args[1])
		}
	} else {
		err = os.Chdir(args[1])
	}
	if err != nil {
		fmt.Println("failed:", err)
		os.Exit(1)
	}
	fmt.Println("ready")
	io.Copy(io.Discard, os.Stdin)
}

func parseOpLog(data string) []Op {
	var ops []Op
	for _, line := range strings.Split(data, "\n") {
		f := strings.SplitN(line, " ", 3)
		if len(f) < 3 {
			continue
		}
		op := Op{Kind: f[1]}
		rest := strings.TrimSuffix(strings.TrimPrefix(f[2], "["), "]")
		for rest != "" {
			qs, err := strconv.QuotedPrefix(rest)
			if err != nil {
				break
			}
			s, _ := strconv.Unquote(qs)
			op.Args = append(op.Args, s)
			rest = strings.TrimPrefix(rest[len(qs):], " ")
		}
		ops = append(ops, op)
	}
	return ops
}

func saveKernel(file string, k *simk.Kernel) error {
	raw, _ := json.Marshal(KernelIn{Tab: k.Tab, NextID: k.NextID, NextDev: k.NextDev})
	return os.WriteFile(file, raw, 0600)
}

func loadKernel(file string) (*simk.Kernel, error) {
	raw, err := os.ReadFile(file)
	if err != nil {
		return nil, err
	}
	var ki KernelIn
	if err := json.Unmarshal(raw, &ki); err != nil {
		return nil, err
	}
	return &simk.Kernel{Tab: append([]c12.KLine{}, ki.Tab...), NextID: ki.NextID, NextDev: ki.NextDev}, nil
}

// runStepCLI executes one invocation with the real binary.
func runStepCLI(in Input, k *simk.Kernel, st StepIn, salt int) (obs StepObs) {
	cfg := in.Cfg
	self, err := os.Executable()
	if err != nil {
		return StepObs{Res: "harness-error", Err: err.Error()}
	}
	scratch, err := os.MkdirTemp("", "lcvcli")
	if err != nil {
		return StepObs{Res: "harness-error", Err: err.Error()}
	}
	defer os.RemoveAll(scratch)
	state, logfile, helper := scratch+"/kernel.json", scratch+"/oplog", scratch+"/kernel-helper"
	if err := saveKernel(state, k); err != nil {
		return StepObs{Res: "harness-error", Err: err.Error()}
	}
	// the hook runs <program> <args>: a two-line script that re-enters this executable
	script := "#!/bin/sh\nexec '" + strings.ReplaceAll(self, "'", "'\\''") + "' kernel-helper \"$@\"\n"
	if err := os.WriteFile(helper, []byte(script), 0700); err != nil {
		return StepObs{Res: "harness-error", Err: err.Error()}
	}
	argv := cliArgv(in, st, salt)
	names := []string{}
	for name := range st.Users {
		names = append(names, name)
	}
	sort.Strings(names)
	for _, name := range names {
		for _, u := range st.Users[name] {
			lu, err := startLiveUser(self, userDir(cfg, name, u), u.Root)
			if err != nil {
				return StepObs{Res: "harness-error", Err: err.Error()}
			}
			defer lu.stop()
		}
	}
	cmd := exec.Command(os.Getenv("LCV_RUN")+"/layercake", argv...)
	env := []string{}
	for _, e := range os.Environ() {
		if !strings.HasPrefix(e, "LAYERROOT=") && !strings.HasPrefix(e, "LAYERCONF=") && !strings.HasPrefix(e, "LAYERCAKE_VERIF_") &&
			!strings.HasPrefix(e, "HOME=") {
			env = append(env, e)
		}
	}
	// no configuration file outside the world: $HOME/.layercake absent (the other candidates,
	// <prefix>/etc/layercake.conf and /etc/layercake.conf, do not exist on this machine)
	env = append(env, "HOME="+scratch, "LAYERCAKE_VERIF_KERNEL="+helper, kernelStateEnv+"="+state, "LAYERCAKE_VERIF_LOG="+logfile)
	if st.Env.Fault != "" {
		env = append(env, fmt.Sprintf("LAYERCAKE_VERIF_FAULT=%s:%d", st.Env.Fault, st.Env.K))
	}
	if st.Cmd.Kind == "chroot" {
		env = append(env, "LCV_EXPECT_DIR="+cfg.Layers+"/"+st.Cmd.A+"/"+cfg.BuildRoot, "LCV_EXPECT_LAYER="+st.Cmd.A)
	}
	cmd.Env = env
	cmd.Dir = "/"
	var out bytes.Buffer
	cmd.Stdout, cmd.Stderr = &out, &out
	if err := cmd.Start(); err != nil {
		return StepObs{Res: "harness-error", Err: err.Error()}
	}
	done := make(chan error, 1)
	go func() { done <- cmd.Wait() }()
	select {
	case err = <-done:
	case <-time.After(6 * time.Second):
		cmd.Process.Kill()
		<-done
		obs.Res = "diverge"
	}
	text := out.String()
	if len(text) > 600 {
		text = text[:600]
	}
	code := 0
	if ee, ok := err.(*exec.ExitError); ok {
		code = ee.ExitCode()
	} else if err != nil {
		return StepObs{Res: "harness-error", Err: err.Error()}
	}
	logdata, _ := os.ReadFile(logfile)
	obs.Ops = parseOpLog(string(logdata))
	switch {
	case obs.Res == "diverge":
	case code == 0:
		obs.Res = "ok"
	case code == 137 && st.Env.Fault == "crash":
		obs.Res = "crash"
		// the binary logs the operation it dies before; the in-process hook does not
		if len(obs.Ops) > 0 {
			obs.Ops = obs.Ops[:len(obs.Ops)-1]
		}
	case code == 2 && strings.Contains(out.String(), "goroutine ") && strings.Contains(out.String(), "panic"):
		obs.Res = "panic"
		obs.Err = text
	default:
		obs.Res = "fail"
		obs.Err = text
	}
	if nk, err := loadKernel(state); err == nil {
		k.Tab, k.NextID, k.NextDev = nk.Tab, nk.NextID, nk.NextDev
	} else {
		return StepObs{Res: "harness-error", Err: err.Error()}
	}
	for _, o := range obs.Ops {
		if o.Kind == "open" && len(o.Args) > 0 {
			rel := strings.TrimPrefix(o.Args[0], cfg.Layers+"/")
			if i := strings.IndexByte(rel, '/'); i > 0 {
				obs.Order = append(obs.Order, rel[:i])
			}
		}
	}
	obs.CLI = argv
	if st.Cmd.Kind == "list" && obs.Res == "ok" && !st.Env.Verbose {
		rows, ok := parseListTable(out.String())
		if !ok { // not the documented table: must not pass for "nothing observed"
			rows = []LayerObs{{Name: "?unparsable list output"}}
		}
		obs.Layers, obs.HasL = rows, true
	}
	return
}

// StateNames: manage's layerstateDescriptions, index = Layerinfo.State
var StateNames = []string{"defined but empty", "error", "incomplete setup", "not yet populated", "build directories set up",
	"mountable", "partially mounted", "mounted and ready", "mounted; cannot be unmounted"}

// parseListTable reads the table `layercake list` prints (without -v one row per layer): name,
// "(base level)" or "<- parent", an optional usage word (busy / chroot), the state description.
// In a LayerObs of such a row MountBusy stands for the word "busy" (LC.lobs_listed).
func parseListTable(out string) ([]LayerObs, bool) {
	rows := []LayerObs{}
	if strings.Contains(out, "No layers found") {
		return rows, true
	}
	lines := strings.Split(out, "\n")
	seenHeader := false
	for _, line := range lines {
		f := strings.Fields(line)
		if len(f) == 0 || strings.HasPrefix(line, "Caution:") {
			continue
		}
		if !seenHeader {
			if f[0] == "Layer" {
				seenHeader = true
			}
			continue
		}
		if strings.HasPrefix(f[0], "=") {
			continue
		}
		var lo LayerObs
		var rest []string
		switch {
		case len(f) >= 3 && f[1] == "(base" && f[2] == "level)":
			lo.Name, rest = f[0], f[3:]
		case len(f) >= 3 && f[1] == "<-":
			lo.Name, lo.Base, rest = f[0], f[2], f[3:]
		default:
			return nil, false
		}
		if len(rest) > 0 && rest[0] == "busy" {
			lo.MountBusy, rest = true, rest[1:]
		} else if len(rest) > 0 && rest[0] == "chroot" {
			lo.Chroot, rest = true, rest[1:]
		}
		desc := strings.Join(rest, " ")
		lo.State = -1
		for i, sn := range StateNames {
			if desc == sn {
				lo.State = i
			}
		}
		if lo.State < 0 {
			return nil, false
		}
		rows = append(rows, lo)
	}
	return rows, seenHeader
}

// KernelHelperMain is the program the binary's hook calls: one kernel interaction on the state file.
func KernelHelperMain(args []string) {
	state := os.Getenv(kernelStateEnv)
	k, err := loadKernel(state)
	if err != nil || len(args) < 1 {
		fmt.Fprintln(os.Stderr, "kernel-helper: no state:", err)
		os.Exit(5) // EIO
	}
	fail := func(err error) {
		var en syscall.Errno
		switch {
		case errors.As(err, &en) && en > 0 && en < 126:
			os.Exit(int(en))
		case errors.Is(err, simk.ErrNoEnt):
			os.Exit(int(syscall.ENOENT))
		case errors.Is(err, simk.ErrBusy):
			os.Exit(int(syscall.EBUSY))
		}
		os.Exit(int(syscall.EINVAL))
	}
	switch {
	case args[0] == "mountinfo":
		os.Stdout.WriteString(k.Mountinfo())
		return
	case args[0] == "mount" && len(args) == 6:
		fl, _ := strconv.ParseUint(args[4], 10, 64)
		if err := k.Mount(args[1], args[2], args[3], uintptr(fl), args[5]); err != nil {
			fail(err)
		}
	case args[0] == "umount" && len(args) == 3:
		fl, _ := strconv.Atoi(args[2])
		if err := k.Unmount(args[1], fl); err != nil {
			fail(err)
		}
	default:
		os.Exit(int(syscall.ENOSYS))
	}
	if err := saveKernel(state, k); err != nil {
		os.Exit(5)
	}
}
