package lcw

import (
	"fmt"
	"sort"
	"strings"

	"lcverif/c12"
	"lcverif/rng"
)

// ---------------------------------------------------------------- world generator
type Imp struct{ Fstype, Source, Mount string }

type LayerSpec struct {
	Name, Base          string
	Imports, Exports    []Imp
	HasConfig           bool
	HasBuild            bool
	HasWork, HasUpper   bool
	Minimal             bool     // FHS directories present in the build root
	Mountpoints         bool     // import mountpoints present in the build root
	Files               []string // user files (paths relative to the layer directory)
	RawConfig           string   // when non-empty, written verbatim as layerconfig
	HasPackages, HasGen bool
	UpperMirrors        bool // a derived layer's mountpoint directories also exist in its upper directory (real kernel: merged view)
}

type WorldSpec struct {
	BaseName   string // last component(s) of the base path below ScratchBase
	Layers     []LayerSpec
	HostLayout string // plain | stacked | sepfs | bindbase
	HostDirs   []string
	Foreign    []Entry // extra entries (absolute paths), e.g. foreign content in the export tree
	NoSkeleton bool
}

func StdCfg(baseName string) Cfg {
	b := ScratchBase + "/" + baseName
	return Cfg{Base: b, Layers: b + "/layers", BuildRoot: "build", BinPkg: "packages", Gen: "generated",
		Work: "overlayfs/workdir", Upper: "overlayfs/upperdir", Exports: b + "/export",
		ExpBinPkg: "packages", ExpGen: "generated"}
}

var MinimalDirs = []string{"bin", "etc", "lib", "opt", "root", "sbin", "usr"}

const SkeletonText = "import rbind /dev /dev\nimport proc /proc /proc\nimport rbind /sys /sys\n" +
	"import rbind /var/db/repos /var/db/repos\nimport rbind /var/cache/distfiles /var/cache/distfiles\n" +
	"import rbind $$base/packages /var/cache/binpkgs"

func ConfigText(l LayerSpec) string {
	if l.RawConfig != "" {
		return l.RawConfig
	}
	var b strings.Builder
	if l.Base != "" {
		fmt.Fprintf(&b, "base %s\n\n", l.Base)
	}
	for _, m := range l.Imports {
		fmt.Fprintf(&b, "import %s %s %s\n", m.Fstype, m.Source, m.Mount)
	}
	if len(l.Exports) > 0 {
		b.WriteString("\n")
	}
	for _, m := range l.Exports {
		fmt.Fprintf(&b, "export %s %s %s\n", m.Fstype, m.Source, m.Mount)
	}
	return b.String()
}

// HostTable builds the initial kernel table of a host layout.
func HostTable(layout string, cfg Cfg) KernelIn {
	rw := []c12.KV{{K: "rw"}}
	t := []c12.KLine{
		{ID: "21", Parent: "1", Dev: "8:1", Root: "/", MP: "/", Opts: "rw,relatime", Fstype: "ext4", Source: "/dev/root", Sopts: rw},
		{ID: "22", Parent: "21", Dev: "0:5", Root: "/", MP: "/dev", Opts: "rw,nosuid", Fstype: "devtmpfs", Source: "devtmpfs", Sopts: rw},
		{ID: "23", Parent: "22", Dev: "0:24", Root: "/", MP: "/dev/pts", Opts: "rw,nosuid", Fstype: "devpts", Source: "devpts", Sopts: rw},
		{ID: "24", Parent: "22", Dev: "0:25", Root: "/", MP: "/dev/shm", Opts: "rw,nosuid", Fstype: "tmpfs", Source: "tmpfs", Sopts: rw},
		{ID: "25", Parent: "21", Dev: "0:22", Root: "/", MP: "/proc", Opts: "rw,nosuid", Fstype: "proc", Source: "proc", Sopts: rw},
		{ID: "26", Parent: "21", Dev: "0:21", Root: "/", MP: "/sys", Opts: "rw,nosuid", Fstype: "sysfs", Source: "sysfs", Sopts: rw},
		{ID: "27", Parent: "26", Dev: "0:7", Root: "/", MP: "/sys/kernel/security", Opts: "rw", Fstype: "securityfs", Source: "securityfs", Sopts: rw},
		{ID: "28", Parent: "21", Dev: "0:26", Root: "/", MP: "/run", Opts: "rw,nosuid", Fstype: "tmpfs", Source: "tmpfs", Sopts: rw},
	}
	switch layout {
	case "stacked":
		t = append(t, c12.KLine{ID: "29", Parent: "24", Dev: "0:27", Root: "/", MP: "/dev/shm", Opts: "rw", Fstype: "tmpfs", Source: "shm", Sopts: rw})
	case "sepfs":
		t = append(t, c12.KLine{ID: "29", Parent: "21", Dev: "8:2", Root: "/", MP: cfg.Base, Opts: "rw,relatime", Fstype: "ext4", Source: "/dev/sdb1", Sopts: rw})
	case "bindbase":
		t = append(t, c12.KLine{ID: "29", Parent: "21", Dev: "8:1", Root: "/srv/lc", MP: cfg.Base, Opts: "rw,relatime", Fstype: "ext4", Source: "/dev/root", Sopts: rw})
	case "twicebound": // the same subtree mounted at two places; the base path is the later alias
		t = append(t, c12.KLine{ID: "29", Parent: "21", Dev: "8:3", Root: "/data", MP: "/srv/alias", Opts: "rw,relatime", Fstype: "ext4", Source: "/dev/sdc1", Sopts: rw},
			c12.KLine{ID: "30", Parent: "21", Dev: "8:3", Root: "/data", MP: cfg.Base, Opts: "rw,relatime", Fstype: "ext4", Source: "/dev/sdc1", Sopts: rw})
	}
	return KernelIn{Tab: t, NextID: 100, NextDev: 60}
}

// BuildInput turns a world spec into the initial file tree and kernel table.
func BuildInput(ws WorldSpec) Input {
	cfg := StdCfg(ws.BaseName)
	var es []Entry
	dir := func(p string) { es = append(es, Entry{Path: B(p), Kind: "d"}) }
	file := func(p, c string) { es = append(es, Entry{Path: B(p), Kind: "f", Data: B(c)}) }
	dir(cfg.Base)
	dir(cfg.Layers)
	dir(cfg.Exports)
	if !ws.NoSkeleton {
		file(cfg.Base+"/default_layerconfig.skel", SkeletonText)
		file(cfg.Exports+"/index.html", "<html></html>\n")
	}
	for _, h := range ws.HostDirs {
		dir(h)
	}
	for _, l := range ws.Layers {
		lp := cfg.Layers + "/" + l.Name
		dir(lp)
		if l.HasConfig {
			file(lp+"/layerconfig", ConfigText(l))
		}
		bp := lp + "/" + cfg.BuildRoot
		if l.HasBuild {
			dir(bp)
			if l.Minimal {
				for _, d := range MinimalDirs {
					dir(bp + "/" + d)
				}
			}
			if l.Mountpoints {
				for _, m := range l.Imports {
					dir(bp + m.Mount)
				}
			}
		}
		if l.HasWork {
			dir(lp + "/" + cfg.Work)
		}
		if l.HasUpper {
			dir(lp + "/" + cfg.Upper)
			if l.UpperMirrors {
				for _, m := range l.Imports {
					dir(lp + "/" + cfg.Upper + m.Mount)
				}
			}
		}
		if l.HasPackages {
			dir(lp + "/" + cfg.BinPkg)
		}
		if l.HasGen {
			dir(lp + "/" + cfg.Gen)
		}
		for _, f := range l.Files {
			file(lp+"/"+f, "data of "+f+"\n")
		}
	}
	es = append(es, ws.Foreign...)
	return Input{Cfg: cfg, FS: es, Kernel: HostTable(ws.HostLayout, cfg)}
}

// "voilà" and "Рх" are legal names with two-byte UTF-8 letters (inside the modelled ranges); their
// encodings contain the bytes 0xA0 and 0x85, which are white space when taken for Latin-1 characters
var legalNames = []string{"base1", "gcc", "kde", "dev_1", "x", "L2", "stage-3", "a", "ab", "abc", "b", "zz9", "voilà", "Рх"}
var oddNames = []string{"", "-lead", "has space", "sl/ash", "dot.name", "base1~removed", "tilde~", "$x",
	strings.Repeat("n", 70), "nosuch", "é", strings.Repeat("L", 256), strings.Repeat("m", 255), strings.Repeat("x", 400),
	"×x", "中"} // a two-byte rune outside the modelled letter ranges, a three-byte rune: out of domain

func PickName(r *rng.R) string {
	if r.Chance(1, 5) {
		return r.Pick(oddNames)
	}
	return r.Pick(legalNames)
}

// GenImports draws an import list; hostDir is a directory below the base path that exists.
func GenImports(r *rng.R, cfg Cfg, skeletonLike bool) []Imp {
	pool := []Imp{
		{"rbind", "/dev", "/dev"}, {"proc", "/proc", "/proc"}, {"rbind", "/sys", "/sys"},
		{"rbind", cfg.Base + "/host/repos", "/var/db/repos"},
		{"bind", cfg.Base + "/host/distfiles", "/var/cache/distfiles"},
		{"rbind", "$$base/packages", "/var/cache/binpkgs"},
		{"bind", "$$self/generated", "/mnt/gen"},
		{"bind", "/nonexistent/src", "/mnt/missing"},
		{"tmpfs", "tmpfs", "/tmp/scratch"},
		{"rbind", "/run", "/run"},
		{"bind", "/run", "/run"}, // a plain bind of a host tree that needs the slave propagation all the same
		{"bind", cfg.Base + "/host/repos", "/mnt/../mnt/repos2"},
		// bytes that mean something to a formatter, a shell or a glob but nothing to layercake
		{"bind", cfg.Base + "/host/100%sure", "/mnt/50%"},
		{"bind", cfg.Base + "/host/repos", "/mnt/p%2Fq[1]*"},
		// a host directory BESIDE the layers directory whose path merely starts with the same bytes
		{"bind", cfg.Layers + "-shared/distfiles", "/mnt/shared"},
		// an import on the build root itself (its cleaned mountpoint is "/")
		{"bind", "$$self/generated", "/"},
	}
	if skeletonLike {
		return append([]Imp{}, pool[0], pool[1], pool[2], pool[3], pool[5])
	}
	n := r.Heavy(5)
	out := []Imp{}
	used := map[string]bool{}
	for i := 0; i < n; i++ {
		m := pool[r.Intn(len(pool))]
		if m.Source == "/nonexistent/src" && !r.Chance(1, 4) {
			continue
		}
		if used[m.Mount] {
			continue
		}
		used[m.Mount] = true
		out = append(out, m)
	}
	return out
}

// GenForest draws a forest of up to maxLayers layers, mostly complete and mountable.
func GenForest(r *rng.R, cfg Cfg, maxLayers int, healthy bool) []LayerSpec {
	n := 1 + r.Heavy(maxLayers-1)
	names := append([]string{}, legalNames...)
	for i := len(names) - 1; i > 0; i-- {
		j := r.Intn(i + 1)
		names[i], names[j] = names[j], names[i]
	}
	var ls []LayerSpec
	for i := 0; i < n && i < len(names); i++ {
		l := LayerSpec{Name: names[i], HasConfig: true, HasBuild: true, Minimal: true, Mountpoints: true}
		if i > 0 && r.Chance(2, 3) {
			l.Base = ls[r.Intn(len(ls))].Name
			l.HasWork, l.HasUpper = true, true
		}
		l.Imports = GenImports(r, cfg, r.Chance(1, 3))
		if r.Chance(1, 4) {
			l.Exports = []Imp{{"symlink", "/var/cache/binpkgs", "$$package_export"}}
			if r.Chance(1, 2) {
				l.Exports = append(l.Exports, Imp{"symlink", "/out", "$$file_export"})
			}
			if r.Chance(1, 4) {
				l.Exports = append(l.Exports, Imp{"symlink", "/srv/out%d/100%", "$$file_export"})
			}
		}
		l.HasPackages = r.Chance(1, 2)
		l.HasGen = r.Chance(1, 3)
		if !healthy {
			if r.Chance(1, 6) {
				l.HasBuild = false
			}
			if l.Base != "" && r.Chance(1, 6) {
				l.HasWork = false
			}
			if l.Base != "" && r.Chance(1, 6) {
				l.HasUpper = false
			}
			if r.Chance(1, 6) {
				l.Minimal = false
			}
			if r.Chance(1, 6) {
				l.Mountpoints = false
			}
			if r.Chance(1, 12) {
				l.HasConfig = false
			}
			if r.Chance(1, 10) {
				l.RawConfig = "base " + l.Base + "\nimport rbind /dev\nbogus line here\n"
				if l.Base == "" {
					l.RawConfig = "import rbind /dev\n"
				}
			}
		}
		for k := r.Heavy(3); k > 0; k-- {
			l.Files = append(l.Files, r.Pick([]string{"build/usr/data.bin", "packages/app-1.tbz2", "generated/out.txt",
				"overlayfs/upperdir/etc/conf", "notes.txt", "build/root/.profile", "stage3.tar.xz",
				"overlayfs/workdir/notes.txt", "overlayfs/workdir/work/leftover", "overlayfs/keep.txt"}))
		}
		sort.Strings(l.Files)
		l.Files = dedupStrings(l.Files)
		ls = append(ls, l)
	}
	// a sibling whose name is a parent's name plus "-...": '-' sorts before '/', so in every
	// ordering by ancestry path the sibling lands between the parent and the parent's children
	if r.Chance(1, 4) {
		for _, p := range ls {
			hasChild := false
			for _, c := range ls {
				if c.Base == p.Name {
					hasChild = true
				}
			}
			if hasChild {
				sib := LayerSpec{Name: p.Name + r.Pick([]string{"-x", "-musl", "-"}), Base: p.Base, HasConfig: true, HasBuild: true,
					Minimal: true, Mountpoints: true, HasWork: p.Base != "", HasUpper: p.Base != "",
					Imports: GenImports(r, cfg, true)}
				ls = append(ls, sib)
				break
			}
		}
	}
	return ls
}

func dedupStrings(s []string) []string {
	out := s[:0:0]
	for i, x := range s {
		if i == 0 || x != s[i-1] {
			out = append(out, x)
		}
	}
	return out
}

func GenWorld(r *rng.R, maxLayers int, healthy bool) WorldSpec {
	ws := WorldSpec{BaseName: r.Pick([]string{"b", "b", "b", "lc root", "deep/er/base"})}
	cfg := StdCfg(ws.BaseName)
	ws.Layers = GenForest(r, cfg, maxLayers, healthy)
	ws.HostLayout = r.Pick([]string{"plain", "plain", "stacked", "sepfs", "bindbase", "twicebound"})
	ws.HostDirs = []string{cfg.Base + "/host/repos", cfg.Base + "/host/distfiles"}
	if r.Chance(1, 5) {
		ws.HostDirs = ws.HostDirs[:1]
	}
	ws.HostDirs = append(ws.HostDirs, cfg.Base+"/host/100%sure")
	if r.Chance(1, 2) {
		ws.HostDirs = append(ws.HostDirs, cfg.Layers+"-shared/distfiles")
	}
	return ws
}

func LayerNames(ws WorldSpec) []string {
	out := []string{}
	for _, l := range ws.Layers {
		out = append(out, l.Name)
	}
	return out
}

// Classes summarises a run for the evidence histogram.
func Classes(in Input, obs []StepObs) []string {
	cl := []string{fmt.Sprintf("steps=%d", len(obs))}
	for i, o := range obs {
		cl = append(cl, "cmd="+in.Steps[i].Cmd.Kind, "res="+o.Res)
		if in.Steps[i].Env.Pretend {
			cl = append(cl, "pretend")
		}
		if in.Steps[i].Env.Fault != "" {
			cl = append(cl, "fault="+in.Steps[i].Env.Fault)
		}
		if o.CLI != nil {
			cl = append(cl, "process-level")
			if len(in.Steps[i].Users) > 0 {
				cl = append(cl, "process-level-live-users")
			}
		}
	}
	return cl
}
