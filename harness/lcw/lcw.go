// Package lcw builds layercake worlds (a real directory tree under a scratch base path, a
// simulated kernel mount table, synthetic process users), runs whole layercake invocations
// (FindLayers + ProbeAllLayerstate + command, as cmd/layercake does) on the REAL code of
// package manage, and records what happened as a Gallina term of type LC.case.
package lcw

import (
	"encoding/json"
	"fmt"
	"io"
	"os"
	"path"
	"path/filepath"
	"sort"
	"strconv"
	"strings"
	"time"

	"lcverif/c12"
	"lcverif/common"
	q "lcverif/coqfmt"
	"lcverif/simk"

	"potano.layercake/config"
	"potano.layercake/fns"
	"potano.layercake/fs"
	"potano.layercake/manage"
)

type B = common.B

// ---------------------------------------------------------------- input types (JSON-stable)
type Entry struct {
	Path B      `json:"p"`
	Kind string `json:"k"` // d f l
	Data B      `json:"d"` // file content or link target
}

type Cfg struct {
	Base, Layers, BuildRoot, BinPkg, Gen, Work, Upper, Exports, ExpBinPkg, ExpGen string
}

type Env struct {
	Pretend bool   `json:"pretend"`
	Fault   string `json:"fault"` // "", "fail", "crash"
	K       int    `json:"k"`
	Force   bool   `json:"force"`
	Verbose bool   `json:"verbose"`
}

type Cmd struct {
	Kind string `json:"kind"` // init add remove rename rebase mkdirs mount umount shake chroot probe
	A    string `json:"a"`
	B    string `json:"b"`
	C    string `json:"c"`
	Flag bool   `json:"flag"`
}

type User struct {
	Root bool   `json:"root"`
	File string `json:"file"`
}

type StepIn struct {
	Env   Env               `json:"env"`
	Cmd   Cmd               `json:"cmd"`
	Users map[string][]User `json:"users"`
}

type KernelIn struct {
	Tab     []c12.KLine `json:"tab"`
	NextID  uint64      `json:"nextid"`
	NextDev uint64      `json:"nextdev"`
}

type Input struct {
	Cfg    Cfg      `json:"cfg"`
	FS     []Entry  `json:"fs"` // entries below Cfg.Base (absolute paths); created in order
	Kernel KernelIn `json:"kernel"`
	Steps  []StepIn `json:"steps"`
	// CLI > 0: every step that has a process-level form is executed by the real binary
	// cmd/layercake (see cli.go); the value varies where the global switches are put
	CLI int `json:"cli,omitempty"`
	// Conf: path of a configuration file inside the world that process-level steps pass with
	// -config (the generator writes it so that, by the documentation, it resolves to Cfg);
	// ConfBase: -basepath is passed as well
	Conf     string `json:"conf,omitempty"`
	ConfBase bool   `json:"confbase,omitempty"`
}

// ---------------------------------------------------------------- observation types
type Op struct {
	Kind string
	Args []string
}

type LayerObs struct {
	Name, Base                                string
	State                                     int
	MountBusy, NonMountBusy, Overlain, Chroot bool
	Mounts                                    []string
}

type StepObs struct {
	Res     string // ok fail crash diverge panic
	Err     string
	Ops     []Op
	Removed []string
	Upsert  []Entry
	Kernel  KernelIn
	Layers  []LayerObs
	HasL    bool
	Order   []string // oracle: children in the order rename rewrote them
	CLI     []string `json:",omitempty"` // the command line, when the step was run by the real binary
}

// ScratchBase is the directory every world lives in (wiped per case).
const ScratchBase = "/var/tmp/lcv"

type crashSentinel struct{}

var hostDirs = []string{"/dev", "/proc", "/sys", "/run"}

// ---------------------------------------------------------------- file tree
// MakeTree creates the entries (exported for the real-kernel runner).
func MakeTree(entries []Entry) error { return makeTree(entries) }

func makeTree(entries []Entry) error {
	// entries that cannot be created (a generated name clashing with an earlier one) are
	// skipped: the initial world handed to Coq is the dump of what really exists
	for _, e := range entries {
		p := string(e.Path)
		switch e.Kind {
		case "d":
			os.MkdirAll(p, 0755)
		case "f":
			if os.MkdirAll(path.Dir(p), 0755) == nil {
				if st, err := os.Lstat(p); err != nil || st.Mode().IsRegular() {
					os.WriteFile(p, []byte(e.Data), 0644)
				}
			}
		case "l":
			if os.MkdirAll(path.Dir(p), 0755) == nil {
				os.Symlink(string(e.Data), p)
			}
		}
	}
	return nil
}

// dumpTree lists "/" , every prefix of root, the host directories and everything below root.
func dumpTree(root string) []Entry {
	out := []Entry{{Path: "/", Kind: "d"}}
	seen := map[string]bool{"/": true}
	add := func(e Entry) {
		if !seen[string(e.Path)] {
			seen[string(e.Path)] = true
			out = append(out, e)
		}
	}
	cur := ""
	for _, c := range strings.Split(strings.TrimPrefix(root, "/"), "/") {
		cur += "/" + c
		if cur != root {
			add(Entry{Path: B(cur), Kind: "d"})
		}
	}
	for _, h := range hostDirs {
		if st, err := os.Stat(h); err == nil && st.IsDir() {
			add(Entry{Path: B(h), Kind: "d"})
		}
	}
	filepath.Walk(root, func(p string, info os.FileInfo, err error) error {
		if err != nil {
			return nil
		}
		switch {
		case info.Mode()&os.ModeSymlink != 0:
			t, _ := os.Readlink(p)
			add(Entry{Path: B(p), Kind: "l", Data: B(t)})
		case info.IsDir():
			add(Entry{Path: B(p), Kind: "d"})
		default:
			data, _ := os.ReadFile(p)
			add(Entry{Path: B(p), Kind: "f", Data: B(data)})
		}
		return nil
	})
	sort.Slice(out, func(i, j int) bool { return out[i].Path < out[j].Path })
	return out
}

func diffTree(old, new []Entry) (removed []string, upsert []Entry) {
	om := map[string]Entry{}
	for _, e := range old {
		om[string(e.Path)] = e
	}
	nm := map[string]bool{}
	for _, e := range new {
		nm[string(e.Path)] = true
		if o, ok := om[string(e.Path)]; !ok || o != e {
			upsert = append(upsert, e)
		}
	}
	for _, e := range old {
		if !nm[string(e.Path)] {
			removed = append(removed, string(e.Path))
		}
	}
	return
}

// ---------------------------------------------------------------- running
// ToConfig converts the harness configuration to the real one.
func ToConfig(c Cfg) *config.ConfigType { return toConfig(c) }

func toConfig(c Cfg) *config.ConfigType {
	return &config.ConfigType{Basepath: c.Base, Layerdirs: c.Layers, LayerBuildRoot: c.BuildRoot,
		LayerBinPkgdir: c.BinPkg, LayerGeneratedir: c.Gen, LayerOvfsWorkdir: c.Work, LayerOvfsUpperdir: c.Upper,
		Exportdirs: c.Exports, ExportBinPkgdir: c.ExpBinPkg, ExportGeneratedir: c.ExpGen,
		ChrootExec: "/usr/bin/chroot"}
}

func layerObs(layers *manage.Layerdefs) []LayerObs {
	out := []LayerObs{}
	for _, l := range layers.Layers() {
		lo := LayerObs{Name: l.Name, Base: l.Base, State: l.State, MountBusy: l.MountBusy,
			NonMountBusy: l.NonMountBusy, Overlain: l.Overlain, Chroot: l.Chroot}
		for _, m := range l.Mounts {
			lo.Mounts = append(lo.Mounts, m.Mountpoint)
		}
		out = append(out, lo)
	}
	return out
}

// runStep executes one invocation on the real code.
func runStep(cfg Cfg, k *simk.Kernel, st StepIn) (obs StepObs) {
	c := toConfig(cfg)
	opts := &config.Opts{Verbose: st.Env.Verbose, Pretend: st.Env.Pretend, Force: st.Env.Force}
	inuse := fs.InUseLayerMap{}
	for name, us := range st.Users {
		for i, u := range us {
			used := uint(fs.UsedAs_cwd)
			if u.Root {
				used = fs.UsedAs_root
			}
			inuse[name] = append(inuse[name], fs.InUseProc{Pid: uint(1000 + i), UsedAs: used, ProgName: "prog", File: u.File})
		}
	}
	count := 0
	fs.VerifHook = func(kind string, args ...string) error {
		n := count
		if st.Env.Fault == "crash" && n == st.Env.K {
			panic(crashSentinel{})
		}
		count++
		obs.Ops = append(obs.Ops, Op{kind, append([]string{}, args...)})
		if st.Env.Fault == "fail" && n == st.Env.K {
			return fmt.Errorf("injected I/O error")
		}
		return nil
	}
	fs.SyscallMount = func(src, tgt, fstype string, flags uintptr, data string) error {
		return k.Mount(src, tgt, fstype, flags, data)
	}
	fs.SyscallUnmount = func(tgt string, flags int) error { return k.Unmount(tgt, flags) }
	fs.GetAlternateProbeMountsCursor = func() fs.LineReader {
		return fs.NewTextInputCursor("mountinfo", strings.NewReader(k.Mountinfo()))
	}
	fs.MessageWriter = io.Discard
	fs.WriteOK = fs.MakePretender(st.Env.Pretend, false, nil)
	defer func() { fs.VerifHook = nil }()

	var layers *manage.Layerdefs
	done := make(chan struct{})
	go func() {
		defer close(done)
		defer func() {
			if e := recover(); e != nil {
				if _, ok := e.(crashSentinel); ok {
					obs.Res = "crash"
				} else {
					obs.Res = "panic"
					obs.Err = fmt.Sprint(e)
				}
			}
		}()
		var err error
		if st.Cmd.Kind == "init" {
			err = manage.InitLayercakeBase(c)
		} else if st.Cmd.Kind == "kmount" {
			fl, _ := strconv.ParseUint(st.Cmd.C, 10, 64)
			parts := strings.SplitN(st.Cmd.B, "|", 3) // target|fstype|data
			for len(parts) < 3 {
				parts = append(parts, "")
			}
			err = k.Mount(st.Cmd.A, parts[0], parts[1], uintptr(fl), parts[2])
		} else if st.Cmd.Kind == "kumount" {
			err = k.Unmount(st.Cmd.A, 0)
		} else if st.Cmd.Kind == "edit" {
			err = os.WriteFile(st.Cmd.A, []byte(st.Cmd.B), 0644)
		} else {
			if missing := manage.CheckBaseSetUp(c); len(missing) > 0 {
				err = fmt.Errorf("missing items %v", missing)
			} else if layers, err = manage.FindLayers(c, opts); err == nil {
				if err = layers.ProbeAllLayerstate(inuse); err == nil {
					switch st.Cmd.Kind {
					case "add":
						err = layers.AddLayer(st.Cmd.A, st.Cmd.B, st.Cmd.C)
					case "remove":
						err = layers.RemoveLayer(st.Cmd.A, st.Cmd.Flag)
					case "rename":
						err = layers.RenameLayer(st.Cmd.A, st.Cmd.B)
					case "rebase":
						err = layers.RebaseLayer(st.Cmd.A, st.Cmd.B)
					case "mkdirs":
						err = layers.Makedirs(st.Cmd.A)
					case "mount":
						err = layers.Mount(st.Cmd.A)
					case "umount":
						err = layers.Unmount(st.Cmd.A, st.Cmd.Flag)
					case "shake":
						err = layers.Shake()
					case "chroot":
						err = ChrootPrepare(layers, st.Cmd.A)
					case "probe":
					case "list":
						listEmulation(layers, opts)
					default:
						err = fmt.Errorf("unknown command %s", st.Cmd.Kind)
					}
				}
			}
		}
		if err != nil {
			obs.Res = "fail"
			obs.Err = err.Error()
		} else {
			obs.Res = "ok"
		}
	}()
	select {
	case <-done:
	case <-time.After(4 * time.Second):
		obs.Res = "diverge"
		Diverged = true
		return
	}
	if obs.Res == "ok" && layers != nil {
		obs.Layers = layerObs(layers)
		obs.HasL = true
	}
	// oracle: order in which layerconfig temp files of different layers were opened
	for _, o := range obs.Ops {
		if o.Kind == "open" && len(o.Args) > 0 {
			rel := strings.TrimPrefix(o.Args[0], cfg.Layers+"/")
			if i := strings.IndexByte(rel, '/'); i > 0 {
				obs.Order = append(obs.Order, rel[:i])
			}
		}
	}
	return
}

// listEmulation does what cmd/layercake's listCommand does with the probed layers (the table is
// printed to a discarded stdout); a panic in the table code is an observable.
func listEmulation(layers *manage.Layerdefs, opts *config.Opts) {
	llist := layers.Layers()
	if len(llist) < 1 {
		return
	}
	save := os.Stdout
	if null, err := os.OpenFile("/dev/null", os.O_WRONLY, 0); err == nil {
		os.Stdout = null
		defer func() { os.Stdout = save; null.Close() }()
	}
	tbl := fns.NewAdaptiveTable("   l    l   c   l")
	tbl.SetLabels("Layer", "Parent", "Usage", "Setup State")
	for _, layer := range llist {
		var basespec string
		var more []string
		if len(layer.Base) > 0 {
			basespec = "<- " + layer.Base
		} else {
			basespec = "(base level)"
		}
		if layer.Chroot {
			more = append(more, "chroot")
		} else if layer.MountBusy || layer.NonMountBusy || layer.Overlain {
			more = append(more, "busy")
		}
		tbl.Print(layer.Name, basespec, strings.Join(more, ", "), layers.DescribeMounts(layer, opts.Verbose))
	}
	tbl.Flush()
}

// Diverged is set when a command did not return within the wall-clock limit; the runaway
// goroutine cannot be stopped, so the generator stops after the current case.
var Diverged bool

// ChrootPrepare is Layerdefs.Chroot up to (not including) the exec: mount unless ready.
func ChrootPrepare(layers *manage.Layerdefs, name string) error {
	layer := layers.Layer(name)
	if layer == nil {
		return fmt.Errorf("no layer %s", name)
	}
	if layer.State < manage.Layerstate_mounted {
		return layers.Mount(name)
	}
	return nil
}

// Run builds the world, runs every step, returns the observations.
func Run(in Input) ([]Entry, []StepObs, error) {
	if !strings.HasPrefix(in.Cfg.Base, ScratchBase+"/") {
		return nil, nil, fmt.Errorf("base path %q must lie below %s", in.Cfg.Base, ScratchBase)
	}
	os.RemoveAll(ScratchBase)
	if err := os.MkdirAll(ScratchBase, 0755); err != nil {
		return nil, nil, err
	}
	defer os.RemoveAll(ScratchBase)
	if err := makeTree(in.FS); err != nil {
		return nil, nil, err
	}
	if in.CLI > 0 && in.Conf != "" {
		if err := writeChrootStub(); err != nil {
			return nil, nil, err
		}
	}
	k := &simk.Kernel{Tab: append([]c12.KLine{}, in.Kernel.Tab...), NextID: in.Kernel.NextID, NextDev: in.Kernel.NextDev}
	fs0 := dumpTree(ScratchBase)
	cur := fs0
	var obs []StepObs
	cli := in.CLI > 0 && CLIAvailable()
	for i, st := range in.Steps {
		var o StepObs
		if cli && cliEligible(in, st) {
			o = runStepCLI(in, k, st, in.CLI+i)
			if o.Res == "harness-error" {
				return nil, nil, fmt.Errorf("process-level step %d: %s", i, o.Err)
			}
		} else {
			o = runStep(in.Cfg, k, st)
		}
		next := dumpTree(ScratchBase)
		o.Removed, o.Upsert = diffTree(cur, next)
		cur = next
		o.Kernel = KernelIn{append([]c12.KLine{}, k.Tab...), k.NextID, k.NextDev}
		obs = append(obs, o)
		if o.Res == "diverge" {
			break
		}
	}
	return fs0, obs, nil
}

// ---------------------------------------------------------------- Gallina terms
func entryTerm(e Entry) string {
	var n string
	switch e.Kind {
	case "d":
		n = "Dir"
	case "f":
		n = q.App("File", q.Hx(string(e.Data)))
	default:
		n = q.App("Link", q.Hx(string(e.Data)))
	}
	return q.Pair(q.Hx(string(e.Path)), n)
}

// FsTerm, CfgTerm, CmdTerm: Gallina terms for other case formats.
func FsTerm(es []Entry) string     { return fsTerm(es) }
func CfgTerm(c Cfg) string         { return cfgTerm(c) }
func CmdTerm(c Cmd) string         { return cmdTerm(c) }
func DumpTree(root string) []Entry { return dumpTree(root) }

func fsTerm(es []Entry) string {
	ts := make([]string, len(es))
	for i, e := range es {
		ts[i] = entryTerm(e)
	}
	return q.List(ts)
}

func klineTerm(k c12.KLine) string {
	so := make([]string, len(k.Sopts))
	for j, kv := range k.Sopts {
		v := q.None()
		if kv.HasV {
			v = q.Some(q.Hx(kv.V))
		}
		so[j] = q.Pair(q.Hx(kv.K), v)
	}
	return q.App("MkK", q.Hx(k.ID), q.Hx(k.Parent), q.Hx(k.Dev), q.Hx(k.Root), q.Hx(k.MP), q.Hx(k.Opts),
		q.HxList(k.Optional), q.Hx(k.Fstype), q.Hx(k.Source), q.List(so))
}

func ktabTerm(t []c12.KLine) string {
	ts := make([]string, len(t))
	for i, k := range t {
		ts[i] = klineTerm(k)
	}
	return q.List(ts)
}

func cfgTerm(c Cfg) string {
	return q.App("MkCfg", q.Hx(c.Base), q.Hx(c.Layers), q.Hx(c.BuildRoot), q.Hx(c.BinPkg), q.Hx(c.Gen), q.Hx(c.Work),
		q.Hx(c.Upper), q.Hx(c.Exports), q.Hx(c.ExpBinPkg), q.Hx(c.ExpGen))
}

func cmdTerm(c Cmd) string {
	switch c.Kind {
	case "init":
		return "CInit"
	case "add":
		return q.App("CAdd", q.Hx(c.A), q.Hx(c.B), q.Hx(c.C))
	case "remove":
		return q.App("CRemove", q.Hx(c.A), q.Bool(c.Flag))
	case "rename":
		return q.App("CRename", q.Hx(c.A), q.Hx(c.B))
	case "rebase":
		return q.App("CRebase", q.Hx(c.A), q.Hx(c.B))
	case "mkdirs":
		return q.App("CMkdirs", q.Hx(c.A))
	case "mount":
		return q.App("CMount", q.Hx(c.A))
	case "umount":
		return q.App("CUmount", q.Hx(c.A), q.Bool(c.Flag))
	case "shake":
		return "CShake"
	case "chroot":
		return q.App("CChroot", q.Hx(c.A))
	case "kmount":
		fl, _ := strconv.ParseUint(c.C, 10, 64)
		parts := strings.SplitN(c.B, "|", 3)
		for len(parts) < 3 {
			parts = append(parts, "")
		}
		return q.App("CKMount", q.Hx(c.A), q.Hx(parts[0]), q.Hx(parts[1]), q.N(fl), q.Hx(parts[2]))
	case "kumount":
		return q.App("CKUmount", q.Hx(c.A))
	case "edit":
		return q.App("CEdit", q.Hx(c.A), q.Hx(c.B))
	}
	return "CProbe"
}

func opTerm(o Op) string {
	a := func(i int) string {
		if i < len(o.Args) {
			return o.Args[i]
		}
		return ""
	}
	n := func(i int) string {
		v, _ := strconv.ParseUint(a(i), 10, 64)
		return q.N(v)
	}
	switch o.Kind {
	case "mkdir":
		return q.App("OMkdir", q.Hx(a(0)))
	case "writetext":
		return q.App("OWriteText", q.Hx(a(0)))
	case "open":
		return q.App("OOpen", q.Hx(a(0)))
	case "write":
		return q.App("OAppend", q.Hx(a(0)))
	case "rename":
		return q.App("ORename", q.Hx(a(0)), q.Hx(a(1)))
	case "remove":
		return q.App("ORemove", q.Hx(a(0)))
	case "symlink":
		return q.App("OSymlink", q.Hx(a(0)), q.Hx(a(1)))
	case "mount":
		return q.App("OMount", q.Hx(a(0)), q.Hx(a(1)), q.Hx(a(2)), n(3), q.Hx(a(4)))
	case "umount":
		return q.App("OUmount", q.Hx(a(0)), n(1))
	}
	return q.App("OMkdir", q.Hx("?unknown-op?"))
}

func envTerm(e Env, order []string) string {
	f := "NoFault"
	switch e.Fault {
	case "fail":
		f = q.App("FailAt", q.Nat(e.K))
	case "crash":
		f = q.App("CrashAt", q.Nat(e.K))
	}
	return q.App("MkEnv", q.Bool(e.Pretend), f, q.Bool(e.Force), q.Bool(e.Verbose), q.HxList(order))
}

func usersTerm(us map[string][]User) string {
	names := []string{}
	for n := range us {
		names = append(names, n)
	}
	sort.Strings(names)
	ts := []string{}
	for _, n := range names {
		ut := []string{}
		for _, u := range us[n] {
			ut = append(ut, q.App("MkU", q.Bool(u.Root), q.Hx(u.File)))
		}
		ts = append(ts, q.Pair(q.Hx(n), q.List(ut)))
	}
	return q.List(ts)
}

func resTerm(r string) string {
	switch r {
	case "ok":
		return "ROk"
	case "fail":
		return "RFail"
	case "crash":
		return "RCrash"
	case "diverge":
		return "RDiverge"
	}
	return "RPanic"
}

func stepTerm(in StepIn, o StepObs) string {
	layers := q.None()
	if o.HasL {
		ls := make([]string, len(o.Layers))
		for i, l := range o.Layers {
			ls[i] = q.App("LC.MkLO", q.Hx(l.Name), q.Hx(l.Base), q.N(uint64(l.State)), q.Bool(l.MountBusy),
				q.Bool(l.NonMountBusy), q.Bool(l.Overlain), q.Bool(l.Chroot), q.HxList(l.Mounts))
		}
		layers = q.Some(q.List(ls))
	}
	ops := make([]string, len(o.Ops))
	for i, op := range o.Ops {
		ops[i] = opTerm(op)
	}
	return q.App("LC.MkStep", envTerm(in.Env, o.Order), cmdTerm(in.Cmd), usersTerm(in.Users), resTerm(o.Res),
		q.List(ops), q.App("LC.MkDelta", q.HxList(o.Removed), fsTerm(o.Upsert)),
		ktabTerm(o.Kernel.Tab), q.N(o.Kernel.NextID), q.N(o.Kernel.NextDev), layers, q.HxList(o.CLI))
}

// CaseTerm renders the whole case as a term of type LC.case.
func CaseTerm(in Input, fs0 []Entry, obs []StepObs) string {
	steps := make([]string, len(obs))
	for i := range obs {
		steps[i] = stepTerm(in.Steps[i], obs[i])
	}
	return q.App("LC.MkCase", cfgTerm(in.Cfg), fsTerm(fs0),
		q.App("MkKS", ktabTerm(in.Kernel.Tab), q.N(in.Kernel.NextID), q.N(in.Kernel.NextDev)), q.List(steps))
}

// RunCase runs the input and packages it as a case record.
func RunCase(in Input) (*common.Case, []StepObs, error) {
	fs0, obs, err := Run(in)
	if err != nil {
		return nil, nil, err
	}
	raw, _ := json.Marshal(in)
	var inAny interface{}
	json.Unmarshal(raw, &inAny)
	c := &common.Case{
		Coq:  CaseTerm(in, fs0, obs),
		Desc: map[string]interface{}{"input": inAny, "obs": obs},
	}
	return c, obs, nil
}
