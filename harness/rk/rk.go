// Package rk runs scripts of layercake commands with the REAL binaries on the REAL kernel,
// inside a private mount namespace (unshare -m, root required): the scratch base directory
// is a fresh tmpfs, overlay/bind/rbind mounts are real.  Used for the process-level part of
// C15 (switch positions) and as the referee of the simulated kernel (thorough tier).
package rk

import (
	"bufio"
	"bytes"
	"encoding/json"
	"fmt"
	"os"
	"os/exec"
	"path/filepath"
	"sort"
	"strconv"
	"strings"
	"syscall"

	"lcverif/lcw"
)

type Step struct {
	Argv   []string `json:"argv"`   // arguments after the binary name and -basepath <base>
	Manual *lcw.Cmd `json:"manual"` // kmount / kumount done by hand instead of running layercake
}

type Request struct {
	In    lcw.Input `json:"in"` // Cfg + FS (Steps/Kernel ignored)
	Steps []Step    `json:"steps"`
	Bin   string    `json:"bin"`
}

type MountLine struct {
	MP, Fstype, Source, Root, Sopts string
}

type StepRes struct {
	Exit    int
	Out     string
	Ops     []lcw.Op
	Mounts  []MountLine // mounts at or below the scratch base after the step
	TreeSig string      // signature of the file tree below the base path after the step
	Would   bool        // -debug output had "would ..." lines
	Action  bool        // -debug output had "action: ..." lines
}

type Response struct {
	Err   string
	Init  StepRes // state before the first step
	Steps []StepRes
}

// Available reports whether private mount namespaces with overlay mounts work here.
func Available() bool {
	cmd := exec.Command("unshare", "-m", "sh", "-c", "mount --make-rprivate / && mkdir -p /var/tmp/lcv && mount -t tmpfs tmpfs /var/tmp/lcv")
	return cmd.Run() == nil
}

// Run executes the request in a child process inside a new mount namespace.
func Run(req Request) (*Response, error) {
	self, err := os.Executable()
	if err != nil {
		return nil, err
	}
	raw, _ := json.Marshal(req)
	cmd := exec.Command("unshare", "-m", self, "rk-child")
	cmd.Stdin = bytes.NewReader(raw)
	var out, errb bytes.Buffer
	cmd.Stdout = &out
	cmd.Stderr = &errb
	if err := cmd.Run(); err != nil {
		return nil, fmt.Errorf("rk child: %v: %s", err, errb.String())
	}
	var resp Response
	if err := json.Unmarshal(out.Bytes(), &resp); err != nil {
		return nil, fmt.Errorf("rk child output: %v: %s", err, out.String())
	}
	if resp.Err != "" {
		return nil, fmt.Errorf("rk child: %s", resp.Err)
	}
	return &resp, nil
}

func unescape(s string) string {
	var b strings.Builder
	for i := 0; i < len(s); i++ {
		if s[i] == '\\' && i+3 < len(s) {
			if v, err := strconv.ParseUint(s[i+1:i+4], 8, 8); err == nil {
				b.WriteByte(byte(v))
				i += 3
				continue
			}
		}
		b.WriteByte(s[i])
	}
	return b.String()
}

func mountsBelow(base string) []MountLine {
	fh, err := os.Open("/proc/self/mountinfo")
	if err != nil {
		return nil
	}
	defer fh.Close()
	var out []MountLine
	sc := bufio.NewScanner(fh)
	sc.Buffer(make([]byte, 1<<20), 1<<20)
	for sc.Scan() {
		seg := strings.Split(sc.Text(), " ")
		if len(seg) < 10 {
			continue
		}
		i := 6
		for i < len(seg) && seg[i] != "-" {
			i++
		}
		if i+3 >= len(seg)+0 && i+2 >= len(seg) {
			continue
		}
		mp := unescape(seg[4])
		if mp != base && !strings.HasPrefix(mp, base+"/") {
			continue
		}
		ml := MountLine{MP: mp, Root: unescape(seg[3]), Fstype: seg[i+1], Source: unescape(seg[i+2])}
		if i+3 < len(seg) {
			ml.Sopts = seg[i+3]
		}
		out = append(out, ml)
	}
	return out
}

func treeSig(root string) string {
	var lines []string
	var rootDev uint64
	if st, err := os.Stat(root); err == nil {
		rootDev = uint64(st.Sys().(*syscall.Stat_t).Dev)
	}
	filepath.Walk(root, func(p string, info os.FileInfo, err error) error {
		if err != nil {
			return nil
		}
		// never walk into a mounted file system (procfs, devtmpfs, sysfs, overlays ...)
		if st, ok := info.Sys().(*syscall.Stat_t); ok && uint64(st.Dev) != rootDev {
			lines = append(lines, "m "+p)
			if info.IsDir() {
				return filepath.SkipDir
			}
			return nil
		}
		switch {
		case info.Mode()&os.ModeSymlink != 0:
			t, _ := os.Readlink(p)
			lines = append(lines, "l "+p+" "+t)
		case info.IsDir():
			lines = append(lines, "d "+p)
		case info.Mode().IsRegular():
			data, _ := os.ReadFile(p)
			lines = append(lines, fmt.Sprintf("f %s %d %x", p, len(data), fnv(data)))
		default:
			lines = append(lines, "o "+p)
		}
		return nil
	})
	sort.Strings(lines)
	return fmt.Sprintf("%x", fnv([]byte(strings.Join(lines, "\n"))))
}

func fnv(b []byte) uint64 {
	h := uint64(14695981039346656037)
	for _, c := range b {
		h ^= uint64(c)
		h *= 1099511628211
	}
	return h
}

func readOps(logfile string) []lcw.Op {
	data, err := os.ReadFile(logfile)
	if err != nil {
		return nil
	}
	var ops []lcw.Op
	for _, line := range strings.Split(strings.TrimSpace(string(data)), "\n") {
		f := strings.SplitN(line, " ", 3)
		if len(f) < 2 {
			continue
		}
		ops = append(ops, lcw.Op{Kind: f[1]})
	}
	return ops
}

// ChildMain runs inside the new mount namespace.
func ChildMain() {
	var resp Response
	defer func() {
		out, _ := json.Marshal(resp)
		os.Stdout.Write(out)
	}()
	var req Request
	if err := json.NewDecoder(os.Stdin).Decode(&req); err != nil {
		resp.Err = err.Error()
		return
	}
	if err := syscall.Mount("", "/", "", syscall.MS_REC|syscall.MS_PRIVATE, ""); err != nil {
		resp.Err = "make-rprivate: " + err.Error()
		return
	}
	os.MkdirAll(lcw.ScratchBase, 0755)
	if err := syscall.Mount("tmpfs", lcw.ScratchBase, "tmpfs", 0, ""); err != nil {
		resp.Err = "tmpfs: " + err.Error()
		return
	}
	lcw.MakeTree(req.In.FS)
	base := req.In.Cfg.Base
	logfile := lcw.ScratchBase + "/.oplog"
	snap := func(r *StepRes) {
		r.Mounts = mountsBelow(lcw.ScratchBase)
		os.Remove(logfile)
		r.TreeSig = treeSig(lcw.ScratchBase)
	}
	snap(&resp.Init)
	for _, st := range req.Steps {
		var r StepRes
		if st.Manual != nil {
			var err error
			if st.Manual.Kind == "kmount" {
				fl, _ := strconv.ParseUint(st.Manual.C, 10, 64)
				parts := strings.SplitN(st.Manual.B, "|", 3)
				for len(parts) < 3 {
					parts = append(parts, "")
				}
				err = syscall.Mount(st.Manual.A, parts[0], parts[1], uintptr(fl), parts[2])
			} else {
				err = syscall.Unmount(st.Manual.A, 0)
			}
			if err != nil {
				r.Exit = 1
				r.Out = err.Error()
			}
		} else {
			args := append([]string{"-basepath", base}, st.Argv...)
			cmd := exec.Command(req.Bin, args...)
			cmd.Env = append(os.Environ(), "LAYERCAKE_VERIF_LOG="+logfile, "LAYERROOT=", "LAYERCONF=")
			cmd.Stdin = nil
			out, err := cmd.CombinedOutput()
			r.Out = string(out)
			if len(r.Out) > 4000 {
				r.Out = r.Out[:4000]
			}
			if err != nil {
				r.Exit = 1
				if ee, ok := err.(*exec.ExitError); ok {
					r.Exit = ee.ExitCode()
				}
			}
			for _, l := range strings.Split(string(out), "\n") {
				if strings.HasPrefix(l, "would ") {
					r.Would = true
				}
				if strings.HasPrefix(l, "action: ") {
					r.Action = true
				}
			}
			r.Ops = readOps(logfile)
		}
		snap(&r)
		resp.Steps = append(resp.Steps, r)
	}
}
