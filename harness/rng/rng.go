// Package rng: one splittable PRNG (splitmix64) drives every random choice.
package rng

type R struct{ s uint64 }

func New(seed uint64) *R { return &R{seed*0x9E3779B97F4A7C15 + 0x1234567} }

func (r *R) U64() uint64 {
	r.s += 0x9E3779B97F4A7C15
	z := r.s
	z = (z ^ (z >> 30)) * 0xBF58476D1CE4E5B9
	z = (z ^ (z >> 27)) * 0x94D049BB133111EB
	return z ^ (z >> 31)
}

// Split derives an independent generator (for one case), leaving r advanced.
func (r *R) Split() *R { return &R{r.U64()} }

func (r *R) Intn(n int) int {
	if n <= 0 {
		return 0
	}
	return int(r.U64() % uint64(n))
}
func (r *R) Range(lo, hi int) int { return lo + r.Intn(hi-lo+1) }
func (r *R) Bool() bool           { return r.U64()&1 == 1 }
func (r *R) Chance(num, den int) bool { return r.Intn(den) < num }
func (r *R) Pick(ss []string) string  { return ss[r.Intn(len(ss))] }

// Heavy: heavy-tailed size in [0,max].
func (r *R) Heavy(max int) int {
	if max <= 0 {
		return 0
	}
	k := 1
	for k < max && r.Chance(2, 3) {
		k *= 2
	}
	if k > max {
		k = max
	}
	return r.Intn(k + 1)
}
