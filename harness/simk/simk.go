// Package simk is the Go simulated kernel mount table used in-process by the harness.
// It is a transliteration of coq/Model/Kernel.v (which is its specification: after every
// command the harness hands the table to Coq, where it is compared with the model's), and
// is refereed against the real kernel in the thorough tier.
package simk

import (
	"fmt"
	"os"
	"path"
	"strings"
	"syscall"

	"lcverif/c12"
)

type Kernel struct {
	Tab     []c12.KLine
	NextID  uint64
	NextDev uint64
}

const (
	MS_REMOUNT = 32
	MS_BIND    = 4096
	MS_REC     = 16384
	MS_SLAVE   = 524288
)

// The errors are the errno values Linux returns (code under test may tell them apart):
// ENOENT a path does not resolve, EINVAL not a mountpoint / bad arguments, EBUSY a mount has
// children.  Kernel.v has the one outcome KErr for all of them.
var ErrNoEnt error = syscall.ENOENT
var ErrInval error = syscall.EINVAL
var ErrBusy error = syscall.EBUSY

func (k *Kernel) Clone() *Kernel {
	c := &Kernel{NextID: k.NextID, NextDev: k.NextDev}
	c.Tab = append([]c12.KLine{}, k.Tab...)
	return c
}

func under(d, q string) bool {
	if d == "/" {
		return strings.HasPrefix(q, "/") && q != "/"
	}
	return strings.HasPrefix(q, d+"/")
}
func atOrUnder(d, q string) bool { return q == d || under(d, q) }
func relSuffix(d, q string) string {
	if d == "/" {
		if q == "/" {
			return ""
		}
		return q
	}
	return q[len(d):]
}

func (k *Kernel) covering(tab []c12.KLine, p string) *c12.KLine {
	var best *c12.KLine
	for i := range tab {
		m := &tab[i]
		if atOrUnder(m.MP, p) {
			if best == nil || len(best.MP) <= len(m.MP) {
				best = m
			}
		}
	}
	return best
}

func (k *Kernel) topAt(p string) *c12.KLine {
	var best *c12.KLine
	for i := range k.Tab {
		if k.Tab[i].MP == p {
			best = &k.Tab[i]
		}
	}
	return best
}

func (k *Kernel) parentID(tab []c12.KLine, p string) string {
	if c := k.covering(tab, p); c != nil {
		return c.ID
	}
	return "1"
}

func joinRoot(croot, rel string) string {
	if croot == "/" {
		if rel == "" {
			return "/"
		}
		return rel
	}
	return croot + rel
}

func exists(p string) bool {
	_, err := os.Lstat(p)
	return err == nil
}
func isDir(p string) bool {
	st, err := os.Stat(p)
	return err == nil && st.IsDir()
}

func parseData(data string) map[string]string {
	out := map[string]string{}
	if data == "" {
		return out
	}
	for _, part := range strings.Split(data, ",") {
		kv := strings.SplitN(part, "=", 2)
		if len(kv) == 2 {
			out[kv[0]] = kv[1]
		}
	}
	return out
}

func (k *Kernel) Mount(src, tgt, fstype string, flags uintptr, data string) error {
	// path resolution: the kernel records the resolved mountpoint, never the string it was given
	// (Kernel.v is only ever handed cleaned paths by the model)
	tgt = path.Clean(tgt)
	fl := uint64(flags)
	if fl&MS_REMOUNT != 0 || fl&MS_SLAVE != 0 {
		if k.topAt(tgt) == nil {
			return ErrInval
		}
		return nil
	}
	if !exists(tgt) {
		return ErrNoEnt
	}
	if fl&MS_BIND != 0 {
		if !exists(src) {
			return ErrNoEnt
		}
		c := k.covering(k.Tab, src)
		if c == nil {
			return ErrInval
		}
		cc := *c
		id := k.NextID
		line := c12.KLine{ID: fmt.Sprint(id), Parent: k.parentID(k.Tab, tgt), Dev: cc.Dev,
			Root: joinRoot(cc.Root, relSuffix(cc.MP, src)), MP: tgt, Opts: "rw,relatime",
			Fstype: cc.Fstype, Source: cc.Source, Sopts: cc.Sopts}
		var subs []c12.KLine
		if fl&MS_REC != 0 {
			for _, m := range k.Tab {
				if under(src, m.MP) {
					subs = append(subs, m)
				}
			}
		}
		k.Tab = append(k.Tab, line)
		id++
		for _, m := range subs {
			mp := tgt + relSuffix(src, m.MP)
			k.Tab = append(k.Tab, c12.KLine{ID: fmt.Sprint(id), Parent: k.parentID(k.Tab, mp), Dev: m.Dev,
				Root: m.Root, MP: mp, Opts: m.Opts, Fstype: m.Fstype, Source: m.Source, Sopts: m.Sopts})
			id++
		}
		k.NextID = id
		return nil
	}
	if fstype == "overlay" {
		d := parseData(data)
		if !(isDir(d["lowerdir"]) && isDir(d["upperdir"]) && isDir(d["workdir"]) && isDir(tgt)) {
			return ErrNoEnt
		}
		k.Tab = append(k.Tab, c12.KLine{ID: fmt.Sprint(k.NextID), Parent: k.parentID(k.Tab, tgt),
			Dev: fmt.Sprintf("0:%d", k.NextDev), Root: "/", MP: tgt, Opts: "rw,relatime", Fstype: "overlay",
			Source: src, Sopts: []c12.KV{{K: "rw"}, {K: "lowerdir", V: d["lowerdir"], HasV: true},
				{K: "upperdir", V: d["upperdir"], HasV: true}, {K: "workdir", V: d["workdir"], HasV: true}}})
		k.NextID++
		k.NextDev++
		return nil
	}
	if fstype == "" {
		return ErrInval
	}
	k.Tab = append(k.Tab, c12.KLine{ID: fmt.Sprint(k.NextID), Parent: k.parentID(k.Tab, tgt),
		Dev: fmt.Sprintf("0:%d", k.NextDev), Root: "/", MP: tgt, Opts: "rw,relatime", Fstype: fstype,
		Source: src, Sopts: []c12.KV{{K: "rw"}}})
	k.NextID++
	k.NextDev++
	return nil
}

// hiddenAt = Kernel.v hidden_at: after the last line whose mountpoint is p there is a line whose
// mountpoint is a strict ancestor directory of p.  That later mount covers the directory tree p
// lies in, so the path p no longer leads to the mount recorded at p (see Kernel.v for the rule,
// its validation on Linux and what it approximates).
func (k *Kernel) hiddenAt(p string) bool {
	h := false
	for i := range k.Tab {
		switch mp := k.Tab[i].MP; {
		case mp == p:
			h = false
		case under(mp, p):
			h = true
		}
	}
	return h
}

func (k *Kernel) Unmount(tgt string, flags int) error {
	tgt = path.Clean(tgt)
	top := k.topAt(tgt)
	if top == nil {
		if !exists(tgt) {
			return ErrNoEnt
		}
		return ErrInval
	}
	if k.hiddenAt(tgt) {
		// the path resolves into the covering mount: the directory is absent there (ENOENT, an empty
		// tmpfs or a bind of a directory without it) or present but no mountpoint (EINVAL)
		return ErrNoEnt
	}
	id := top.ID
	for _, m := range k.Tab {
		if m.Parent == id && m.ID != id {
			return ErrBusy
		}
	}
	out := k.Tab[:0:0]
	for _, m := range k.Tab {
		if m.ID != id {
			out = append(out, m)
		}
	}
	k.Tab = out
	return nil
}

// Mountinfo renders the table as /proc/self/mountinfo text.
func (k *Kernel) Mountinfo() string {
	var b strings.Builder
	for _, m := range k.Tab {
		b.WriteString(c12.Render(m))
		b.WriteByte('\n')
	}
	return b.String()
}
