"""Generic check driver: build, generate cases on the real code, evaluate them in Coq, verdict."""
import json, os, re, subprocess, sys, time, glob, hashlib, shutil
from concurrent.futures import ThreadPoolExecutor

VERIF = os.path.dirname(os.path.dirname(os.path.abspath(__file__)))
REPO = os.environ.get('LC_REPO', '/repo')
COQ = os.path.join(VERIF, 'coq')
RUN = os.path.join(VERIF, 'run')
GOENV = dict(os.environ, GOFLAGS='-mod=mod', GOPROXY='off', GOSUMDB='off', GOTOOLCHAIN='local',
             CGO_ENABLED='0')
DEFAULT_SEED = 20260930
SHARD = 150          # cases per generated .v file
COQC_TIMEOUT = 900

from props import PROPS, TRUSTED_BASE  # noqa: E402


def log(*a):
    print(*a, file=sys.stderr, flush=True)


def _limit_memory():
    import resource
    lim = 12 * 1024 ** 3      # code under test can allocate without bound on hostile inputs
    resource.setrlimit(resource.RLIMIT_AS, (lim, lim))


def sh(cmd, cwd=None, env=None, timeout=None, check=False, limit_mem=False):
    p = subprocess.run(cmd, cwd=cwd, env=env, timeout=timeout, stdout=subprocess.PIPE,
                       stderr=subprocess.STDOUT, text=True, errors='replace',
                       preexec_fn=_limit_memory if limit_mem else None)
    if check and p.returncode != 0:
        raise RuntimeError('command failed: %s\n%s' % (' '.join(cmd), p.stdout[-4000:]))
    return p.returncode, p.stdout


class Broken(Exception):
    """the check itself cannot run (build failure of the harness etc.) -- not a verdict"""


# ---------------------------------------------------------------- build steps
def build_tools():
    os.makedirs(RUN, exist_ok=True)
    rc, out = sh(['go', 'build', '-o', os.path.join(RUN, 'genconsts'), './genconsts'],
                 cwd=os.path.join(VERIF, 'tools'), env=GOENV, timeout=600)
    if rc != 0:
        raise Broken('genconsts build failed:\n' + out)


def build_harness():
    """rebuild the harness against the working tree of REPO (default /repo) with the verif tag"""
    hdir = os.path.join(VERIF, 'harness')
    mod = open(os.path.join(hdir, 'go.mod')).read()
    mod = re.sub(r'replace potano\.layercake => .*', 'replace potano.layercake => ' + REPO, mod)
    modfile = os.path.join(RUN, 'harness.mod')
    open(modfile, 'w').write(mod)
    rc, out = sh(['go', 'build', '-modfile=' + modfile, '-tags', 'verif', '-o', os.path.join(RUN, 'lcv'), './cmd/lcv'],
                 cwd=hdir, env=GOENV, timeout=900)
    if rc != 0:
        raise Broken('harness build against /repo failed (not a verdict):\n' + out[-6000:])
    # the two real binaries, for process-level observation
    for b in ('layercake', 'stagemaker'):
        rc, out = sh(['go', 'build', '-tags', 'verif', '-o', os.path.join(RUN, b), './cmd/' + b],
                     cwd=REPO, env=GOENV, timeout=900)
        if rc != 0:
            raise Broken('build of %s failed (not a verdict):\n%s' % (b, out[-6000:]))


def gen_consts():
    os.makedirs(os.path.join(COQ, 'Gen'), exist_ok=True)
    rc, out = sh([os.path.join(RUN, 'genconsts'), REPO, os.path.join(COQ, 'Gen', 'Consts.v')], timeout=120)
    if rc != 0:
        raise Broken('genconsts failed:\n' + out)


def coq_project():
    files = []
    for d in ('Lib', 'Gen', 'Model', 'Proofs', 'Properties', 'Cases'):
        for root, _, names in os.walk(os.path.join(COQ, d)):
            for n in names:
                if n.endswith('.v'):
                    files.append(os.path.relpath(os.path.join(root, n), COQ))
    files.sort()
    text = '-Q . LC\n' + '\n'.join(files) + '\n'
    p = os.path.join(COQ, '_CoqProject')
    old = open(p).read() if os.path.exists(p) else None
    if old != text or not os.path.exists(os.path.join(COQ, 'Makefile')):
        open(p, 'w').write(text)
        sh(['coq_makefile', '-f', '_CoqProject', '-o', 'Makefile'], cwd=COQ, check=True)


def coq_make(targets=None, keep_going=True, timeout=3000):
    coq_project()
    cmd = ['timeout', str(timeout), 'make', '-j16']
    if keep_going:
        cmd.append('-k')
    if targets:
        cmd += targets
    rc, out = sh(cmd, cwd=COQ, timeout=timeout + 60)
    return rc, out


HYGIENE = re.compile(r'\b(Admitted|admit|Axiom|Axioms|Parameter|Parameters|Conjecture|Conjectures)\b|Unset Guard|bypass_check|type-in-type|impredicative-set|Admit Obligations|Unset Universe Checking|Unset Positivity|Guard Checking|Universe Checking|Positivity Checking')
SECTION_ONLY = re.compile(r'^\s*(Variable|Variables|Hypothesis|Hypotheses|Context)\b')


def hygiene():
    """no axiom-introducing command anywhere in the development; Variable/Hypothesis only inside a Section"""
    bad = []
    for root, _, names in os.walk(COQ):
        for n in names:
            if not n.endswith('.v'):
                continue
            p = os.path.join(root, n)
            text = open(p, errors='replace').read()
            text = re.sub(r'\(\*.*?\*\)', '', text, flags=re.S)
            stack = []
            for i, line in enumerate(text.split('\n')):
                m = re.match(r'^\s*(Section|Module)\s+([A-Za-z0-9_]+)\s*\.', line)
                if m:
                    stack.append((m.group(1), m.group(2)))
                m = re.match(r'^\s*End\s+([A-Za-z0-9_]+)\s*\.', line)
                if m and stack:
                    stack.pop()
                if HYGIENE.search(line):
                    bad.append('%s:%d: %s' % (os.path.relpath(p, VERIF), i + 1, line.strip()))
                if SECTION_ONLY.search(line) and not any(k == 'Section' for k, _ in stack):
                    bad.append('%s:%d: outside a section: %s' % (os.path.relpath(p, VERIF), i + 1, line.strip()))
    p = os.path.join(COQ, '_CoqProject')
    if os.path.exists(p) and re.search(r'type-in-type|impredicative-set|-vos|-vok|-noinit', open(p).read()):
        bad.append('_CoqProject has a forbidden flag')
    return bad


def setup():
    t0 = time.time()
    build_tools()
    build_harness()
    gen_consts()
    rc, out = coq_make(keep_going=False)
    if rc != 0:
        log(out[-8000:])
        raise Broken('Coq build failed')
    bad = hygiene()
    if bad:
        raise Broken('hygiene gate failed:\n' + '\n'.join(bad))
    log('setup ok in %.1fs' % (time.time() - t0))
    return 0


# ---------------------------------------------------------------- proofs
def theorem_names(pid):
    p = os.path.join(COQ, 'Properties', pid + '.v')
    if not os.path.exists(p):
        return []
    text = re.sub(r'\(\*.*?\*\)', '', open(p).read(), flags=re.S)
    return re.findall(r'^\s*Theorem\s+([A-Za-z0-9_\']+)', text, flags=re.M)


def check_proofs(pid):
    """(re)build Properties/<pid>.vo; return dict with obligations, discharged, assumptions, error"""
    names = theorem_names(pid)
    res = {'obligations': len(names), 'discharged': 0, 'theorems': names, 'assumptions': {}, 'error': None}
    targets = ['Cases/%s.vo' % pid, 'Cases/Pack.vo']
    if names:
        targets.append('Properties/%s.vo' % pid)
    rc, out = coq_make(targets)
    res['make_rc'] = rc
    vo = os.path.join(COQ, 'Properties', pid + '.vo')
    if not names:
        res['error'] = 'no Properties/%s.v yet' % pid
        return res
    if rc != 0 or not os.path.exists(vo):
        res['error'] = out[-3000:]
        # which file failed?
        m = re.findall(r'File "\./([^"]+)", line (\d+)', out)
        res['failed_at'] = ['%s:%s' % x for x in m][-3:]
        return res
    bad = hygiene()
    if bad:
        res['error'] = 'hygiene gate: ' + '; '.join(bad)
        return res
    # Print Assumptions for every theorem, on this run
    d = os.path.join(RUN, pid)
    os.makedirs(d, exist_ok=True)
    f = os.path.join(d, 'assume.v')
    with open(f, 'w') as fh:
        fh.write('From LC Require Import Properties.%s.\n' % pid)
        for n in names:
            fh.write('Print Assumptions %s.\n' % n)
    rc, out = sh(['timeout', '300', 'coqc', '-Q', COQ, 'LC', f], cwd=d)
    if rc != 0:
        res['error'] = 'Print Assumptions failed: ' + out[-2000:]
        return res
    chunks = re.split(r'(?=Closed under the global context|Axioms:)', out)
    chunks = [c.strip() for c in chunks if c.strip()]
    for n, c in zip(names, chunks):
        res['assumptions'][n] = ' '.join(c.split())
    res['discharged'] = len(names) if len(chunks) == len(names) else 0
    return res


def coqchk(pid):
    """thorough tier: re-check the compiled property module and everything it depends on with the
    independent checker; the verdict is cached on the state of the compiled files"""
    sig = hashlib.sha1()
    for root, _, names in sorted(os.walk(COQ)):
        for n in sorted(names):
            if n.endswith('.vo'):
                st = os.stat(os.path.join(root, n))
                sig.update(('%s %d %d\n' % (os.path.join(root, n), st.st_size, int(st.st_mtime))).encode())
    key = sig.hexdigest()
    cache = os.path.join(RUN, 'coqchk_%s.json' % pid)
    if os.path.exists(cache):
        c = json.load(open(cache))
        if c.get('key') == key:
            return c
    t0 = time.time()
    rc, out = sh(['timeout', '3000', 'coqchk', '-silent', '-o', '-Q', COQ, 'LC', 'LC.Properties.' + pid], cwd=COQ, timeout=3100)
    m = re.search(r'\* Axioms:(.*?)\n\s*\n', out, flags=re.S)
    axioms = ' '.join(m.group(1).split()) if m else '?'
    # coqchk -o lists what every LOADED library declares, used or not: the primitive 63-bit integers
    # and the standard library's axioms about them (Coq.Numbers.Cyclic.Int63.*) appear as soon as a
    # module on the import path mentions Uint63 (Cases/Pack.v, the dense transport of case files).
    # They are the standard library's, are named in the trusted base, and no property theorem depends
    # on them (Print Assumptions says "Closed under the global context"); anything else fails the check.
    names = [] if axioms in ('<none>', '?') else axioms.split()
    foreign = [n for n in names if not n.startswith('Coq.Numbers.Cyclic.Int63.')]
    res = {'key': key, 'rc': rc, 'axioms': axioms if foreign or not names else
           'only standard-library primitives Coq.Numbers.Cyclic.Int63.* (%d names, loaded through Cases/Pack.v, used by no theorem)' % len(names),
           'seconds': round(time.time() - t0, 1),
           'ok': rc == 0 and axioms != '?' and not foreign, 'tail': out[-600:]}
    json.dump(res, open(cache, 'w'))
    return res


# ---------------------------------------------------------------- case generation / evaluation
_ISOLATE = {}


def isolate_prefix(pidns=False):
    """Run the harness in a private mount namespace with a fresh tmpfs on its scratch directory
    /var/tmp/lcv, so that concurrent checks (several properties, several worktrees) cannot wipe
    each other's worlds.  With pidns (the layercake-command checks, whose process-level steps let
    the real binary scan /proc for users of a layer) also in a private PID namespace with its own
    /proc, so that the scan sees the processes of this run only -- a concurrent run uses the same
    path strings in its own namespace.  Falls back to less isolation where unshare cannot do it."""
    if pidns not in _ISOLATE:
        tail = ['--propagation', 'private', 'sh', '-c',
                'mkdir -p /var/tmp/lcv && mount -t tmpfs tmpfs /var/tmp/lcv && exec "$@"', 'sh']
        choices = [['unshare', '-m'] + tail]
        if pidns:
            choices.insert(0, ['unshare', '-m', '-p', '-f', '--mount-proc'] + tail)
        _ISOLATE[pidns] = []
        for pre in choices:
            try:
                ok = subprocess.run(pre + ['true'], stdout=subprocess.DEVNULL, stderr=subprocess.DEVNULL, timeout=30).returncode == 0
            except Exception:
                ok = False
            if ok:
                _ISOLATE[pidns] = pre
                break
    return _ISOLATE[pidns]


def run_harness(cfg, action, out, **kw):
    pre = isolate_prefix(cfg.get('pidns', False))
    cmd = pre + [os.path.join(RUN, 'lcv'), cfg['go'], action, '-out', out]
    for k, v in kw.items():
        cmd += ['-' + k, str(v)]
    rc, o = sh(cmd, timeout=cfg.get('gen_timeout', 1800), env=dict(GOENV, LCV_RUN=RUN, LCV_REPO=REPO, LCV_ISOLATED='1' if pre else ''),
               limit_mem=True)
    if rc != 0:
        raise Broken('harness %s failed rc=%d:\n%s' % (' '.join(cmd), rc, o[-4000:]))
    cases = []
    with open(out) as fh:
        for line in fh:
            cases.append(json.loads(line))
    return cases


_HX = re.compile(r'\(hx "([0-9a-f]*)"\)')


def pack(term):
    """rewrite (hx "…") into the dense (hp last [ints]) transport of Cases/Pack.v"""
    def enc(m):
        b = bytes.fromhex(m.group(1))
        if not b:
            return '(@nil Ascii.ascii)'
        ints = [str(int.from_bytes(b[i:i + 7], 'big')) for i in range(0, len(b), 7)]
        return '(hp %d%%nat [%s]%%uint63)' % (len(b) - 7 * (len(ints) - 1), ';'.join(ints))
    return _HX.sub(enc, term)


PACK_HEADER = 'From LC Require Import Cases.Pack.\nFrom Coq Require Import Uint63.\n'


def eval_cases(pid, cfg, cases, tag):
    """write sharded .v files, run coqc in parallel, return list of verdict ints (None on error)"""
    d = os.path.join(RUN, pid)
    os.makedirs(d, exist_ok=True)
    size = cfg.get("shard") or max(8, min(SHARD, -(-len(cases) // 4)))
    shards = [cases[i:i + size] for i in range(0, len(cases), size)]
    files = []
    for k, sh_cases in enumerate(shards):
        name = 'cases_%s_%s_%d' % (pid, tag, k)
        f = os.path.join(d, name + '.v')
        with open(f, 'w') as fh:
            fh.write(cfg['coq_header'] + '\n' + PACK_HEADER)
            for j, c in enumerate(sh_cases):
                fh.write('Definition c%d : %s := %s.\n' % (j, cfg['case_type'], pack(c['coq'])))
            fh.write('Definition R := Eval vm_compute in map %s [%s].\nPrint R.\n'
                     % (cfg['verdict'], '; '.join('c%d' % j for j in range(len(sh_cases)))))
        files.append(f)

    def one(f):
        rc, out = sh(['timeout', str(COQC_TIMEOUT), 'coqc', '-noglob', '-Q', COQ, 'LC', f], cwd=d)
        return rc, out
    verdicts = []
    errors = []
    with ThreadPoolExecutor(max_workers=4) as ex:
        results = list(ex.map(one, files))
    for (rc, out), sh_cases, f in zip(results, shards, files):
        flat = ' '.join(out.split())
        m = re.search(r'R = \[(.*?)\]', flat)
        if rc != 0 or not m:
            errors.append('%s: rc=%d %s' % (os.path.basename(f), rc, out[-1500:]))
            verdicts += [None] * len(sh_cases)
            continue
        body = m.group(1).strip()
        vs = [int(re.sub(r'%N', '', x).strip()) for x in body.split(';')] if body else []
        if len(vs) != len(sh_cases):
            errors.append('%s: %d verdicts for %d cases' % (os.path.basename(f), len(vs), len(sh_cases)))
            verdicts += [None] * len(sh_cases)
            continue
        verdicts += vs
    return verdicts, errors


def explain_case(pid, cfg, case):
    """ask Coq what the model predicts for this case (goes into the replay file)"""
    if 'explain' not in cfg:
        return None
    d = os.path.join(RUN, pid)
    f = os.path.join(d, 'explain_%s.v' % pid)
    with open(f, 'w') as fh:
        fh.write(cfg['coq_header'] + '\n' + PACK_HEADER)
        fh.write('Definition the_case : %s := %s.\n' % (cfg['case_type'], pack(case['coq'])))
        fh.write('Eval vm_compute in %s the_case.\n' % cfg['explain'])
    rc, out = sh(['timeout', '300', 'coqc', '-Q', COQ, 'LC', f], cwd=d)
    return out[-6000:]


def load_known(pid):
    """KNOWN_FINDINGS: 'finding: property=Cxx id=<n> <text>' and 'fixed: ...' (fixed lines suppress nothing)"""
    out = {}
    p = os.path.join(VERIF, 'KNOWN_FINDINGS')
    if os.path.exists(p):
        for line in open(p):
            m = re.match(r'finding:\s+property=(\S+)\s+id=(\d+)\s+(.*)', line.strip())
            if m and m.group(1) == pid:
                out[int(m.group(2))] = m.group(3)
    return out


def write_replay(pid, seed, idx, case, verdict, why, extra=None):
    os.makedirs(os.path.join(VERIF, 'replays'), exist_ok=True)
    path = os.path.join('replays', '%s-%d-%d.json' % (pid, seed, idx))
    doc = {
        'property': pid, 'seed': seed, 'subseed': case.get('subseed') if case else None,
        'why': why,
        'verdict_bits': None if verdict is None else {
            'wf': bool(verdict & 1), 'corr': bool(verdict & 2), 'spec': bool(verdict & 4), 'kf': verdict >> 3},
        'input': (case or {}).get('desc', {}).get('input'),
        'observed': (case or {}).get('desc', {}).get('obs'),
        'desc': (case or {}).get('desc'),
        'coq_case': (case or {}).get('coq'),
        'rerun': './check %s --replay %s' % (pid, path),
    }
    if extra:
        doc.update(extra)
    with open(os.path.join(VERIF, path), 'w') as fh:
        json.dump(doc, fh, indent=1, default=str)
    return path


def corpus_inputs(pid):
    ins = []
    for f in sorted(glob.glob(os.path.join(VERIF, 'corpus', pid, '*.json'))):
        if os.environ.get('VERIF_NO_SEEDED_CORPUS') and os.path.basename(f).startswith('seeded-'):
            continue    # tools/seedsweep.sh measures what the generators alone find
        doc = json.load(open(f))
        if isinstance(doc, dict) and 'input' in doc:
            ins.append(doc['input'])
        elif isinstance(doc, list):
            ins += doc
    return ins


def run_property(pid, tier, seed, replay_file=None):
    t0 = time.time()
    cfg = PROPS[pid]
    known = load_known(pid)
    build_tools()
    build_harness()
    gen_consts()
    proofs = check_proofs(pid)
    d = os.path.join(RUN, pid)
    os.makedirs(d, exist_ok=True)
    chk = None
    if tier == 'thorough' and not replay_file and proofs['discharged'] == proofs['obligations'] and proofs['obligations']:
        chk = coqchk(pid)
        if not chk['ok']:
            proofs['discharged'] = 0
            proofs['error'] = 'coqchk: rc=%s axioms=%s %s' % (chk['rc'], chk['axioms'], chk['tail'])

    violations = []       # (replay path, text)
    known_seen = {}
    cases_all = []
    verd_all = []
    errors_all = []

    cases_model_ok = os.path.exists(os.path.join(COQ, 'Cases', pid + '.vo'))
    if not cases_model_ok:
        raise Broken('Cases/%s.vo did not build (model broken, not a verdict):\n%s' % (pid, proofs.get('error')))

    def batch(cases, tag):
        verdicts, errors = eval_cases(pid, cfg, cases, tag)
        cases_all.extend(cases)
        verd_all.extend(verdicts)
        errors_all.extend(errors)
        return verdicts

    if replay_file:
        doc = json.load(open(replay_file))
        inputs = [doc['input']] if isinstance(doc, dict) else doc
        f = os.path.join(d, 'replay_in.json')
        json.dump(inputs, open(f, 'w'))
        cases = run_harness(cfg, 'replay', os.path.join(d, 'replay.jsonl'), **{'in': f})
        batch(cases, 'replay')
    else:
        cin = corpus_inputs(pid)
        if cin:
            f = os.path.join(d, 'corpus_in.json')
            json.dump(cin, open(f, 'w'))
            cases = run_harness(cfg, 'replay', os.path.join(d, 'corpus.jsonl'), **{'in': f})
            for c in cases:
                c.setdefault('classes', []).append('corpus')
            batch(cases, 'corpus')
        n = cfg['n_quick'] if tier == 'quick' else cfg['n_thorough']
        # a command that does not return stops the generator (the runaway goroutine cannot be
        # killed); carry on with a fresh process and a derived seed until n cases exist
        got, attempt = 0, 0
        while got < n and attempt < 8:
            cases = run_harness(cfg, 'gen', os.path.join(d, 'gen%d.jsonl' % attempt), seed=seed + 7919 * attempt,
                                n=n - got, tier=tier)
            batch(cases, 'gen%d' % attempt)
            got += len(cases)
            attempt += 1
        if got == 0:
            raise Broken('the generator produced no case')

    def classify():
        spec_fail, corr_fail, ood, evalerr = [], [], [], []
        for i, (c, v) in enumerate(zip(cases_all, verd_all)):
            if v is None:
                evalerr.append(i)
                continue
            if not v & 1:
                ood.append(i)
                continue
            if not v & 4:
                spec_fail.append(i)
            if not v & 2:
                corr_fail.append(i)
        return spec_fail, corr_fail, ood, evalerr

    spec_fail, corr_fail, ood, evalerr = classify()

    # a failing case is a LISTED finding only if it falls in a class of KNOWN_FINDINGS *and* the
    # implementation did there exactly what the model of the unchanged code does (correspondence
    # holds): the same class failing in a different way is a new violation
    def listed(i):
        v = verd_all[i]
        return (v >> 3) in known and (v >> 3) != 0 and bool(v & 2)

    # when the tie (proof or correspondence) is broken but no failing input is in hand: search
    searched = 0
    if not replay_file and (corr_fail or proofs['discharged'] < proofs['obligations']) and \
            not any(not listed(i) for i in spec_fail):
        for r in range(cfg.get('search_rounds', 2)):
            n = cfg['n_quick']
            cases = run_harness(cfg, 'gen', os.path.join(d, 'search%d.jsonl' % r), seed=seed * 1000 + 17 * (r + 1),
                                n=n, tier='search')
            batch(cases, 'search%d' % r)
            searched += len(cases)
            spec_fail, corr_fail, ood, evalerr = classify()
            if any(not listed(i) for i in spec_fail):
                break

    # ---- real-kernel referee of the simulated kernel (skipped, never failed, where unavailable)
    referee = {'runs': 0, 'disagreements': 0, 'skipped': None, 'samples': []}
    ref_bad = []
    if cfg.get('referee') and not replay_file:
        nref = cfg.get('referee_quick', 3) if tier == 'quick' else cfg.get('referee_thorough', 40)
        out = os.path.join(d, 'referee.jsonl')
        rc, o = sh(isolate_prefix() + [os.path.join(RUN, 'lcv'), cfg['referee'], 'referee', '-seed', str(seed), '-n', str(nref), '-out', out],
                   timeout=3000, env=dict(GOENV, LCV_RUN=RUN, LCV_REPO=REPO), limit_mem=True)
        if rc != 0:
            raise Broken('referee run failed:\n' + o[-3000:])
        for line in open(out):
            r = json.loads(line)
            if 'skipped' in r:
                referee['skipped'] = r['skipped']
            elif 'error' in r and r['error']:
                raise Broken('referee: ' + r['error'])
            else:
                referee['runs'] += 1
                if not r.get('agree'):
                    referee['disagreements'] += 1
                    ref_bad.append(r)
                elif len(referee['samples']) < 2:
                    referee['samples'].append(r.get('script'))

    # ---- verdicts
    nrep = [0]

    def add_violation(case, v, why, nofail=False, extra=None):
        path = write_replay(pid, seed, nrep[0], case, v, why, extra)
        nrep[0] += 1
        violations.append('VIOLATION property=%s replay=%s%s' % (pid, path, ' no-failing-input-found' if nofail else ''))

    reported = 0
    for i in spec_fail:
        v = verd_all[i]
        kfid = v >> 3
        if listed(i):
            known_seen.setdefault(kfid, 0)
            known_seen[kfid] += 1
            continue
        if reported < 5:
            add_violation(cases_all[i], v, 'the property predicate spec_%s is false on what the implementation did '
                          '(kf class %d)' % (pid, kfid),
                          extra={'model_prediction': explain_case(pid, cfg, cases_all[i])})
        reported += 1
    unlisted_spec = reported
    if not unlisted_spec:
        if corr_fail:
            i = corr_fail[0]
            add_violation(cases_all[i], verd_all[i],
                          'correspondence broken: the model %s no longer predicts the implementation on this input '
                          '(%d such cases); the theorems of Properties/%s.v therefore no longer speak about this code; '
                          'search of %d further inputs found none on which the property predicate fails'
                          % (cfg['verdict'], len(corr_fail), pid, searched), nofail=True,
                          extra={'model_prediction': explain_case(pid, cfg, cases_all[i]),
                                 'broken': 'correspondence %s' % cfg['verdict']})
        elif proofs['discharged'] < proofs['obligations']:
            add_violation(None, None,
                          'proof obligation no longer checks: Properties/%s.v (%s); '
                          'search of %d inputs found none on which the property predicate fails'
                          % (pid, proofs.get('failed_at'), searched), nofail=True,
                          extra={'broken': 'theorems %s' % proofs['theorems'], 'coq_error': proofs.get('error')})
    if ref_bad and not violations:
        add_violation(None, None,
                      'the simulated kernel (coq/Model/Kernel.v = harness/simk) and the real kernel disagree on %d of %d '
                      'scripts of layercake commands: the theorems about mounts no longer speak about this kernel/code '
                      'combination; no input on which the property predicate fails was found' % (len(ref_bad), referee['runs']),
                      nofail=True, extra={'broken': 'correspondence Kernel.v / real kernel (referee)', 'referee': ref_bad[:3]})
    # a case outside the model's domain (wf false) is neither compared nor judged.  Inputs that
    # the harness derives from the implementation's own answers take part in wf for some
    # properties, so a change that makes the implementation answer differently can push cases out
    # of the domain instead of into a mismatch: when a quarter of the cases are out of domain
    # (unchanged tree: at most 6 %) the correspondence no longer covers what it is meant to cover
    if not violations and not replay_file and len(cases_all) >= 20 and 4 * len(ood) > len(cases_all):
        i = ood[0]
        add_violation(cases_all[i], verd_all[i],
                      'domain collapse: %d of %d cases are outside the domain of the model (%s wf is false on them); '
                      'the theorems of Properties/%s.v speak about inputs the implementation is no longer run on; '
                      'no input on which the property predicate fails was found'
                      % (len(ood), len(cases_all), cfg['verdict'], pid), nofail=True,
                      extra={'broken': 'correspondence %s (domain)' % cfg['verdict']})
    if evalerr and not violations:
        raise Broken('case evaluation failed in Coq:\n' + '\n'.join(errors_all[:3]))

    # ---- evidence
    keys = {}
    hist = {}
    for c, v in zip(cases_all, verd_all):
        if v is not None and v & 1 and c.get('nontrivial'):
            keys[hashlib.sha1(c['key'].encode()).hexdigest()] = 1
        for cl in c.get('classes', []):
            hist[cl] = hist.get(cl, 0) + 1
    samples = []
    for c in cases_all[:3] + cases_all[-2:]:
        s = json.dumps(c.get('desc', {}).get('input'), default=str)
        samples.append({'input': s[:1500], 'observed': json.dumps(c.get('desc', {}).get('obs'), default=str)[:800]})
    tb = list(TRUSTED_BASE) + cfg.get('trusted_extra', [])
    for n, a in proofs['assumptions'].items():
        tb.append('Print Assumptions %s: %s' % (n, a))
    ev = {
        'property_id': pid, 'tier': tier, 'seed': seed, 'level': 'proof',
        'coverage': {
            'obligations': proofs['obligations'], 'discharged': proofs['discharged'],
            'theorems': proofs['theorems'],
            'checker_cmd': 'cd coq && coq_makefile -f _CoqProject -o Makefile && make -j16 -k Properties/%s.vo Cases/%s.vo '
                           '&& coqc -Q coq LC run/%s/assume.v (Print Assumptions) && coqc -Q coq LC run/%s/cases_*.v '
                           '(vm_compute of %s on every case)' % (pid, pid, pid, pid, cfg['verdict']),
            'trusted_base': tb,
            'evaluations': len(cases_all),
            'distinct_nontrivial': len(keys),
            'rule': cfg['rule'],
            'samples': samples,
            'traces_validated_against_impl': sum(1 for v in verd_all if v is not None and v & 1 and v & 2),
            'correspondence_mismatches': len(corr_fail),
            'spec_false_on_impl': len(spec_fail),
            'out_of_domain_cases': len(ood),
            'known_finding_cases': known_seen,
            'search_cases': searched,
            'real_kernel_referee': referee,
            'coqchk': chk and {k: chk[k] for k in ('ok', 'axioms', 'seconds')},
            'input_distribution': dict(sorted(hist.items())),
            'explanation': cfg.get('explanation', ''),
        },
        'assumptions': cfg.get('assumptions', []),
        'wall_s': round(time.time() - t0, 2),
        'violations': len(violations),
    }
    # evidence/ only ever describes runs against /repo itself; a run against another tree
    # (LC_REPO=<scratch worktree with a seeded change>) leaves its record under run/
    evdir = os.path.join(VERIF, 'evidence') if os.path.realpath(REPO) == '/repo' else os.path.join(RUN, 'evidence-other-tree')
    os.makedirs(evdir, exist_ok=True)
    with open(os.path.join(evdir, pid + '.json'), 'w') as fh:
        json.dump(ev, fh, indent=1)

    for kfid, cnt in sorted(known_seen.items()):
        print('KNOWN-FINDING: property=%s id=%d %s (%d cases this run)' % (pid, kfid, known[kfid], cnt))
    for v in violations:
        print(v)
    log('%s %s: %d cases, %d corr mismatches, %d spec failures, %d out of domain, proofs %d/%d, %.1fs'
        % (pid, tier, len(cases_all), len(corr_fail), len(spec_fail), len(ood), proofs['discharged'],
           proofs['obligations'], time.time() - t0))
    return 1 if violations else 0


def main(argv):
    if not argv:
        print(__doc__)
        return 2
    try:
        if argv[0] == '--setup':
            return setup()
        pid = argv[0]
        if pid not in PROPS:
            log('unknown property', pid)
            return 2
        seed = int(os.environ.get('VERIF_SEED') or DEFAULT_SEED)
        if len(argv) >= 3 and argv[1] == '--replay':
            return run_property(pid, os.environ.get('VERIF_TIER', 'quick'), seed, replay_file=argv[2])
        tier = argv[1] if len(argv) > 1 else os.environ.get('VERIF_TIER', 'quick')
        if tier not in ('quick', 'thorough'):
            tier = 'quick'
        return run_property(pid, tier, seed)
    except Broken as e:
        log('CHECK BROKEN (not a verdict): %s' % e)
        return 2
