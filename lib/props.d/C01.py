LC_HEADER = ('From LC Require Import Lib.Bytes Model.MountInfo Model.FsTree Model.Kernel Model.Layers Cases.LC Cases.C01.\n'
             'Open Scope string_scope.\n')
PROP = dict(
    pidns=True,
    go='c01', n_quick=240, n_thorough=2400,
    coq_header=LC_HEADER,
    referee='cdom', referee_quick=3, referee_thorough=40,
    case_type='LC.case', verdict='C01.verdict',
    rule="mount L (twice) on generated forests with prior states built by earlier mounts and manual mounts/unmounts (partial, foreign, wrong-source, submounts carried by rbind, '..' mountpoints); non-trivial: a mount step issues at least one syscall",
    explanation='per step Coq evaluates: model step = observed step (result class, operation log, file tree, kernel table, '
                'layer states) from the observed world before it, and the C01 predicate on the observed worlds',
    assumptions=['constants regenerated from the source on every run (Gen/Consts.v) that the predicate or the documented part of the model rests on -- LayerconfigFile -- are compared with literals by theorem C01_constants_pinned: an edit of one of them is reported (proof obligation no longer checks) and has to be reviewed; values the manual does not state are the values of the reviewed tree',
        'in-process runs use a simulated kernel mount table (harness/simk = coq/Model/Kernel.v); the file tree is real',
                 'layer names are ASCII; one local file system; symlinks resolved for the last component only'],
)
