LC_HEADER = ('From LC Require Import Lib.Bytes Model.MountInfo Model.FsTree Model.Kernel Model.Layers Cases.LC Cases.%s.\n'
             'Open Scope string_scope.\n')
PROP = dict(
    pidns=True,
    go='c02', n_quick=120, n_thorough=1500,
    coq_header=LC_HEADER % 'C02',
    case_type='LC.case', verdict='C02.verdict',
    rule='histories of 1..8 structural commands (init/add/rename/rebase/remove/mkdirs/list) with names from '
         '{existing, legal new, illegal, empty, very long, ~removed} on generated forests of up to 6 layers; every sixth '
         'case a history around `add -configfile F` with F = the layerconfig of a removed / live layer or a hand-written '
         'template whose `base` line names an existing, removed, non-existent or illegal layer; every '
         'step is replayed by the Gallina model from the observed world before it. Non-trivial: some step changes '
         'the tree or is refused; distinct by the whole input',
    explanation='per step Coq evaluates: model step = observed step (result class, operation log, file tree, kernel table, '
                'layer states) and the C02 predicate on the observed worlds',
    assumptions=['constants regenerated from the source on every run (Gen/Consts.v) that the predicate or the documented part of the model rests on -- LayerconfigFile, SkeletonLayerconfigFile(+Ext), SkeletonLayerconfig, RemovedLayerSuffix, MinimalBuildDirs, ExportIndexHtml(Name), BaseLayerRootBashrc -- are compared with literals by theorem C02_constants_pinned: an edit of one of them is reported (proof obligation no longer checks) and has to be reviewed; values the manual does not state are the values of the reviewed tree',
        'layer names are ASCII (Unicode letter classes are outside the model)',
                 'one local file system; symlinks resolved for the last component only'],
)
