PROP = dict(
    go='c05', n_quick=220, n_thorough=4000,
    coq_header='From LC Require Import Lib.Bytes Model.Resolve Model.Profile Cases.C05.\nOpen Scope string_scope.\n',
    case_type='C05.case', verdict='C05.verdict', explain='C05.model',
    rule='structured stream: generated build roots -- an installed-package database of 2..12 packages (several '
         'slots of one name, one base name in two categories, IUSE_EFFECTIVE/IUSE/USE files, BDEPEND/DEPEND/RDEPEND/'
         'PDEPEND with plain, versioned, slotted, USE-dependent and blocker atoms, any-of / exactly-one-of / '
         'at-most-one-of groups, USE conditionals, nested groups, cycles, missing packages, undecodable files), a '
         'profile tree (parents, diamonds, symlinked make.profile, "*atom" and "-*atom" lines, repeated atoms), '
         'extra -atoms (blockers, bare names) and -nobdeps; traps (inactive conditionals around missing packages, unsatisfied groups, '
         'build-only dependencies under -nobdeps); a per-case chaos level (55% calm, 30% some trouble, 15% wild); scenarios '
         '(many slots of few names, a dependency cycle through every package, one atom text with a parent-relative USE '
         'dependency [f=] [!f=] [f?] [!f?] in several selected packages whose own setting of f differs, '
         'EMPTY GROUPS -- flag? ( ), !flag? ( ), ( ), ?? ( ), || ( ), nested a? ( b? ( ) ) -- as first / middle / last item of '
         'the string or of a group, directly followed by an atom, a blocker, an all-of group, an any-of group or another '
         'conditional, with the owner\'s flag on / off / undeclared, and sprinkled at item boundaries of ordinary texts); '
         'the dependency trees handed to Coq are the PMS readings of the files (harness reference grammar, tied to the text '
         'token by token inside Coq: texts_ok), not the trees of the decoder under test; the package DATABASE of a case is the '
         'generator\'s own (names cut from PF by the harness per PMS 3.2, slot keys from the SLOT text before "/", both re-checked inside '
         'Coq: db_tied), one name in five with hyphen-digit groups / plus / underscore / -r<n> pieces, one version in five from the '
         'whole 3.2 syntax, SLOT with sub-slot and varying white space; directories are created in a random order and the '
         'tree is built a second time in the reverse order on tmpfs. '
         'Non-trivial: the selection has at least 2 members beyond the requested atoms or the run fails; '
         'distinct by the whole input (dependency graph, USE assignment, request)',
    explanation='theorems about the Gallina model of the resolver (Roots, Closed, Justified, Unblocked, '
                'unique readability of dependency strings, empty groups contribute nothing, '
                'the loader view of a database is the database, PF is cut one way, '
                'must-fail, failure-has-a-reason, termination with fuel = packages+1 for every input, independence '
                'of the enumeration order, @system set); per case Coq evaluates wf, model=observation (in-process '
                'API, stagemaker -list system/stage, -list stage on a re-ordered copy, what GetInstalledPackageList returned and '
                'what Readdirnames listed) and spec(observation)',
    assumptions=['the group structure of a dependency string is read by the harness (PMS 8.2 grammar) and checked against '
                 'the text inside Coq (C05.tie); a text outside the grammar keeps the decoder\'s own answer (C14 owns it)',
                 'atom parsing (C14) and atom matching (C13) enter as oracles computed by the real code: every atom '
                 'carries the package name the parser gave it and the installed packages DependAtom.FilterAtoms '
                 'accepts in the owning package\'s USE context (ctxUse = that package\'s GetUseFlagMap()); the objects are the '
                 'loader\'s (a substitute built with package atom\'s constructors for a directory the loader lost); which '
                 'directories exist, their names, slots and collisions are the harness\'s own reading of its input',
                 'the ORDER of fs.Readdirnames is an oracle (c_enum); its membership is observed (o_listed)',
                 'the kernel resolves paths as Model.Profile.walk does (symbolic links expanded in place)'],
)
