PROP = dict(
    go='c06', n_quick=130, n_thorough=3000, shard=20,
    coq_header='From LC Require Import Lib.Bytes Model.StageList Cases.C06.\nOpen Scope string_scope.\n',
    case_type='C06.case', verdict='C06.verdict', explain='C06.model',
    rule='generated build roots (stage skeleton + 4..25 extra files, directories, symlinks incl. chains/cycles/dangling, '
         'hard-link groups, device nodes, fifos/sockets, names with spaces, quotes, *, ?, [, $, backslash, UTF-8) x '
         '2..5 installed packages with CONTENTS (shared/absent/mistyped entries, RDEPEND/BDEPEND files) x requested '
         'atoms x add-files script (add/omit, wildcards, quoting, errors; one case in five: `file NAME src=...` lines whose '
         'source is a link of a hard-link group of 2..5 names that is only partly staged / partly outside the build root, '
         'written as $$stageroot/... or as a host path, NAME before/between/after the group, with and without '
         'mod=/uid=/gid=, two entries sharing a source) x -novdb/-emptydev/-nobdeps; every 12th '
         'case has a corrupted CONTENTS. The real stagemaker binary is run three times (-list stage, -list stage '
         '-files, -generate) and the archive is read back with archive/tar. Non-trivial: the selection is a proper '
         'non-empty subset of the installed packages or an add-files script is present; distinct by the whole input',
    explanation='theorems about Model.StageList (see docs/C06.md); per case Coq evaluates wf, model=obs, spec(obs)',
    assumptions=['constants regenerated from the source on every run (Gen/Consts.v) that the predicate or the documented part of the model rests on -- StandardStageDirs, StageMagic, DoNotTraverse, DevDirSetup, DevDirExtend, MaxSymlinkChain -- are compared with literals by theorem C06_constants_pinned: an edit of one of them is reported (proof obligation no longer checks) and has to be reviewed; values the manual does not state are the values of the reviewed tree',
        'the package selection printed by `stagemaker -list stage` is taken as an input (property C05)',
                 'paths that run through symlinked directories are outside the modelled domain (wf)',
                 'the build root is not "/" itself',
                 'what lstat finds at the absolute host paths of src= options is taken as an input (i_ext)'],
)
