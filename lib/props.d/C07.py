PROP = dict(
    go='c07', n_quick=60, n_thorough=600, shard=8,
    coq_header='From LC Require Import Lib.Bytes Model.TarMeta Cases.C07.\nFrom Coq Require Import ZArith.\nOpen Scope string_scope.\n',
    case_type='C07.case', verdict='C07.verdict', explain='C07.diag',
    rule='one case = one run of the stagemaker binary (-generate) on a generated build root holding the stage skeleton '
         'and 3..15 members under test (package-owned entries, add-files lines of every type with mod/uid/gid/dev/targ/src/'
         'absent options, entries of the built-in scripts): regular files of 0..300000 bytes, directories, symlinks with '
         'targets of 1..4095 bytes, char and block devices with majors up to 4095 and minors up to 2^20-1, absent paths, '
         'setuid/setgid/sticky modes, ids up to 2^32-1, mtimes from 1901 to 2446, 0..12 xattrs with name lists beyond 256 '
         'bytes and values beyond 1024 bytes, hard-link groups, groups of src= entries copying one inode that lives inside the build root (singly or multiply linked, staged or not, path written as $$stageroot/..., absolute or relative); every 6th case is also produced through gzip, bzip2 and xz; every 3rd case (and 1 in 6 of the others) repeats the run 1..2 times onto an -o path that EXISTS already (random/zero/0xff/text bytes or the stage of an earlier real run on a bigger tree or through another compressor; empty, shorter than, as long as, 1 byte .. many times longer than the output; plain and each compressor, method by flag or by file name) and reads the file back IN FULL: length, nothing but zeros after the tar end-of-archive marker / decompressor (Go reader and the program -t) consumes the last byte, same archive as the fresh path. '
         'Non-trivial: some member is not a default regular file (special bits, non-root or big ids, link, device, xattr, '
         'override, absent); distinct by the multiset of (origin, entry type, field-value classes) of the members',
    explanation='theorems: header_faithful, override_exact, absent_defaults, dev_roundtrip (all 64-bit st_rdev), '
                'readlink/xattr buffer loops complete and terminating, compress_same under the filter law, output_exact/independent (the -o file is the written bytes for every previous content of the path; Model/OutFile.v); per case Coq '
                'evaluates wf, model=observed headers, spec(observed headers)',
    assumptions=['constants regenerated from the source on every run (Gen/Consts.v) that the predicate or the documented part of the model rests on -- Umask (0022), StageFileUID, StageFileGID -- are compared with literals by theorem C07_constants_pinned: an edit of one of them is reported (proof obligation no longer checks) and has to be reviewed; values the manual does not state are the values of the reviewed tree',
        'archive/tar (writer and reader), the kernel\'s lstat/readlink/xattr calls and the gzip, bzip2 and xz '
                 'programs are validated by read-back only: a header field is observed through Go\'s archive/tar reader',
                 'file contents longer than 24 bytes are compared through their SHA-256 digest, computed by the harness '
                 'on the source file and on the archive member'],
    trusted_extra=['the harness measures the build root with its own lstat/readlink/llistxattr/lgetxattr/read calls; '
                   'these measurements are the world the model and the specification are evaluated on'],
)
