LC_HEADER = ('From LC Require Import Lib.Bytes Model.MountInfo Model.FsTree Model.Kernel Model.Layers Cases.LC Cases.C08.\n'
             'Open Scope string_scope.\n')
PROP = dict(
    pidns=True,
    go='c08', n_quick=200, n_thorough=2000,
    coq_header=LC_HEADER,
    referee='cdom', referee_quick=3, referee_thorough=40,
    case_type='LC.case', verdict='C08.verdict',
    rule='probe (status/list), mkdirs, mount on forests with missing directories, partial / foreign / wrong-source mounts, export links right/wrong/non-symlink, host layouts plain/stacked/separate fs/bind-mounted base; non-trivial: some layer not plainly mountable',
    explanation='per step Coq evaluates: model step = observed step (result class, operation log, file tree, kernel table, '
                'layer states) from the observed world before it, and the C08 predicate on the observed worlds',
    assumptions=['constants regenerated from the source on every run (Gen/Consts.v) that the predicate or the documented part of the model rests on -- LayerconfigFile, MinimalBuildDirs, ShadowingFsTypes -- are compared with literals by theorem C08_constants_pinned: an edit of one of them is reported (proof obligation no longer checks) and has to be reviewed; values the manual does not state are the values of the reviewed tree',
        'in-process runs use a simulated kernel mount table (harness/simk = coq/Model/Kernel.v); the file tree is real',
                 'layer names are ASCII; one local file system; symlinks resolved for the last component only'],
)
