LC_HEADER = ('From LC Require Import Lib.Bytes Model.MountInfo Model.FsTree Model.Kernel Model.Layers Model.StageOut Cases.LC Cases.C10.\n'
             'Open Scope string_scope.\n')
PROP = dict(
    pidns=True,
    go='c10', n_quick=240, n_thorough=2400,
    coq_header=LC_HEADER,
    case_type='C10.case', verdict='C10.verdict',
    rule='for each sampled (world, command) the fault-free run is counted and the command re-run with the k-th mutating operation failing, k sampled incl. first and last; non-trivial: the fault position was reached Every 4th case runs the real stagemaker (-list system/installed/stage/-files, -generate with none/gzip/bzip2/xz) on a generated build root with an output that fails: /dev/full, a file-size limit of k*512 bytes (ulimit -f) below and above the size of the complete output, a compressor that exits 3; the exit status is compared with the StageOut model; in two of three runs to a file the -o path holds random bytes already (empty .. several times the output) and after exit 0 the file must be exactly as long as the complete output (text lists and the uncompressed archive; Model/OutFile.v).',
    explanation='per step Coq evaluates: model step = observed step (result class, operation log, file tree, kernel table, '
                'layer states) from the observed world before it, and the C10 predicate on the observed worlds',
    assumptions=['in-process runs use a simulated kernel mount table (harness/simk = coq/Model/Kernel.v); the file tree is real',
                 'layer names are ASCII; one local file system; symlinks resolved for the last component only'],
)
