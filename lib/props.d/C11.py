LC_HEADER = ('From LC Require Import Lib.Bytes Model.MountInfo Model.FsTree Model.Kernel Model.Layers Cases.LC Cases.C11.\n'
             'Open Scope string_scope.\n')
PROP = dict(
    pidns=True,
    go='c11', n_quick=240, n_thorough=2400,
    coq_header=LC_HEADER,
    case_type='LC.case', verdict='C11.verdict',
    rule='rewrite commands (add/rename/rebase/remove) on normal and oddly formatted layerconfigs, crashed before the k-th operation, followed by a fresh probe; non-trivial: the crash happened',
    explanation='per step Coq evaluates: model step = observed step (result class, operation log, file tree, kernel table, '
                'layer states) from the observed world before it, and the C11 predicate on the observed worlds',
    assumptions=['constants regenerated from the source on every run (Gen/Consts.v) that the predicate or the documented part of the model rests on -- LayerconfigFile, SkeletonLayerconfigFile, SkeletonLayerconfig -- are compared with literals by theorem C11_constants_pinned: an edit of one of them is reported (proof obligation no longer checks) and has to be reviewed; values the manual does not state are the values of the reviewed tree',
        'in-process runs use a simulated kernel mount table (harness/simk = coq/Model/Kernel.v); the file tree is real',
                 'layer names are ASCII; one local file system; symlinks resolved for the last component only'],
)
