PROP = dict(
    go='c12', n_quick=240, n_thorough=4000,
    coq_header='From LC Require Import Lib.Bytes Model.MountInfo Cases.C12.\nOpen Scope string_scope.\n',
    case_type='C12.case', verdict='C12.verdict', explain='C12.model',
    rule='structured stream: random mount tables (1..15 mounts, parent/child and stacked mountpoints, 0..3 '
         'optional fields, path bytes incl. space/tab/newline/backslash/UTF-8/escape look-alikes, overlay options '
         'in random order with extras and duplicates) rendered as the kernel renders them; every 6th table shows one '
         'file system through mounts of related subtrees (subvolumes, binds of subdirectories: roots equal to, '
         'below -- first component hidden, with blanks, ordinary --, string extensions of, above a subtree root) '
         'and asks for the sources of each of them; every 5th case is a '
         'malformed mutation (correspondence only). Non-trivial: the text has an escape, an optional field, an '
         'overlay or a shadowing file system; distinct by the full mountinfo text',
    explanation='theorems: unescape(mangle s)=s for all byte strings; parse_line(render_line k)=view k; '
                'probe(render T)=view T for every well-formed table; per case Coq evaluates wf, model=obs, spec(obs)',
    assumptions=['constants regenerated from the source on every run (Gen/Consts.v) that the predicate or the documented part of the model rests on -- ShadowingFsTypes -- are compared with literals by theorem C12_constants_pinned: an edit of one of them is reported (proof obligation no longer checks) and has to be reviewed; values the manual does not state are the values of the reviewed tree',
        'the kernel renders mountinfo as Model.MountInfo.render does (escape set " \\t\\n\\\\" for '
                 'paths, plus "," for overlay options); validated against real tables in the thorough tier'],
)
