PROP = dict(
    go='c13', n_quick=1500, n_thorough=15000,
    coq_header='From LC Require Import Lib.Bytes Model.PMS Model.AtomMatch Cases.C13.\nOpen Scope string_scope.\n',
    case_type='C13.xcase', verdict='C13.xverdict', explain='C13.xmodel',
    rule='(dependency atom, installed package, parent flags) triples from the PMS grammar, printed and pushed '
         'through the real parser (depend.DecodeDependencies / depend.NewDependencyAtom, '
         'atom.NewUnprefixedConcreteAtom + NewUseFlagSetFromIUSE/SetFlagsFromUSE): near pairs (one to three small '
         'edits apart), pairs with one edit out of the normal form\'s domain (long components, leading zeros, '
         'several suffixes, bare suffix vs 0, continuing components), unrelated pairs, range operators that must '
         'carry (all-nines, letter z, date-like numbers), USE-dependency focus (6 forms x 3 defaults x candidate '
         'on/off/absent x parent on/off/absent), slot focus (:s :s/ss :s= :* :=); two fifths of the cases with USE '
         'dependencies take the candidate and/or the depending package from a generated /var/db/pkg entry read by the '
         'real loader vdb.GetInstalledPackageList (files IUSE with +/-/no prefixes, IUSE_EFFECTIVE, USE present or '
         'absent; default-on flags switched off, default-off flags switched on, undeclared USE words). Non-trivial: the two versions '
         'differ or a USE dependency is present; distinct by (atom text, package text, IUSE line, USE line, parent flags)',
    explanation='theorems: comparable-string order = PMS version order on the normal form\'s domain; operator table; '
                'USE-dependency table over the finite domain; the flag set setAtom loads from a VDB entry = the PMS flags of '
                'the installed package (declared and listed in USE, prefixes irrelevant); per case Coq evaluates wf, model=obs (comparison '
                'strings, slots, VersionAndSlotMatch, FlagsMatch, FilterAtoms) and spec(obs) = PMS.matches',
    assumptions=['PMS version comparison, operators, slot and USE dependencies as transcribed in coq/Model/PMS.v from '
                 'the specification (DESIGN.md Appendix D)',
                 'the atom parser splits a printed PMS version into basever/suffix/revision as Cases/C13.v prints it '
                 '(validated on every case through the observed comparison strings); parsing itself is property C14',
                 'the use-flag and use-dependency interning tables are injective (fewer than 32768 distinct flags per process)'],
)
