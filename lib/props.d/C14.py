PROP = dict(
    go='c14', n_quick=500, n_thorough=8000,
    coq_header='From LC Require Import Lib.Bytes Model.AtomParse Model.DepParse Model.PMSGrammar Cases.C14.\n'
               'Open Scope string_scope.\n',
    case_type='C14.case', verdict='C14.verdict', explain='C14.model',
    rule='four streams, 3:2:3:2 -- (a) atoms printed from random PMS abstract syntax (blocker, operator, category, '
         'names with digits/hyphens/version look-alikes, versions with letter, several suffixes, revision, glob, '
         'slot/sub-slot/slot operator, repository, 2-style and 4-style USE dependencies) through atom.RawParseAtom in '
         'all four flag combinations; (b) listed corner cases, byte-level mutations of valid atoms, valid atoms with '
         'trailing junk and byte soup; '
         '(c) dependency strings printed from random trees (all-of, ||, ^^, ??, flag?, !flag?, depth up to 7) with '
         'random white space through depend.DecodeDependencies and String(); (d) token soup, token-level mutations '
         '(dropped/doubled/swapped/inserted tokens, one structural token lengthened or shortened), glued tokens, '
         'control bytes as separators, a bare USE conditional inside a valid string, byte mutations and byte soup. '
         'Non-trivial: grammar atoms with >= 3 optional parts, grammar trees of depth >= 2, negative inputs that '
         'are accepted or have >= 2 tokens; distinct by (kind, flags, input bytes)',
    explanation='theorems: no panic / no divergence for every byte string (atoms and dependency strings); '
                'parse(print a) = denote a for every well-formed PMS atom; decode(s) = denote trees for every '
                'string whose white-space tokens are the tokens of well-formed trees of any depth; every accepted '
                'dependency string reads back token for token as the input (unbalanced parentheses are rejected); '
                'String() prints the PMS text; per case Coq evaluates wf, model=obs, spec(obs)',
    assumptions=['constants regenerated from the source on every run (Gen/Consts.v) that the predicate or the documented part of the model rests on -- the character classes of portage/parse/chartype.go and the comparable-version constants of portage/atom (besides the two regular expressions, C14_regex_pinned) -- are compared with literals by theorem C14_constants_pinned: an edit of one of them is reported (proof obligation no longer checks) and has to be reviewed; values the manual does not state are the values of the reviewed tree',
        'Go regexp semantics of the two regular expressions is modelled by hand-written matchers '
                 '(source texts pinned through Gen/Consts.v and validated by the correspondence on every run)',
                 'the version / slot normal forms (makeComparable and the suffix renaming) are shared between model '
                 'and reference: C14 checks where the text is cut, C13 checks what the normal form means'],
    trusted_extra=['Go regexp (RE2 leftmost-first semantics) and the process-global USE-flag interning tables of '
                   'package atom are modelled, not verified'],
)
