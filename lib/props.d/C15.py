LC_HEADER = ('From LC Require Import Lib.Bytes Model.MountInfo Model.FsTree Model.Kernel Model.Layers Model.Args Cases.LC Cases.C15.\n'
             'Open Scope string_scope.\n')
PROP = dict(
    pidns=True,
    go='c15', n_quick=200, n_thorough=2000,
    coq_header=LC_HEADER,
    case_type='C15.case', verdict='C15.verdict',
    rule='every command kind with -p in unmounted/mounted states followed by the same command for real; non-trivial: the real run mutates Every 5th case is process level: the real binary on the real kernel in a private mount namespace with -p (and -v/-debug/-force, local switches) at a random position of the command line; its -debug output shows which pretender is installed (compared with the Args model) and the fault-point log, the file tree and the mount table show whether anything was done.',
    explanation='per step Coq evaluates: model step = observed step (result class, operation log, file tree, kernel table, '
                'layer states) from the observed world before it, and the C15 predicate on the observed worlds',
    assumptions=['in-process runs use a simulated kernel mount table (harness/simk = coq/Model/Kernel.v); the file tree is real',
                 'layer names are ASCII; one local file system; symlinks resolved for the last component only'],
)
