PROP = dict(
    go='c17', n_quick=1200, n_thorough=12000,
    coq_header='From LC Require Import Lib.Bytes Model.StageLine Model.StageDoc Model.StageWild Model.StageWildDoc '
               'Model.Recipe Model.RecipeDoc Model.Compress Cases.C17.\nOpen Scope string_scope.\n',
    case_type='C17.case', verdict='C17.verdict', explain='C17.model',
    rule='seven case kinds per 20 generated cases: 1 cell of the type x option matrix (6 types x 7 options, every cell '
         'every quick run, valid value, random quoting style) and 1 entry of a boundary-value table (57 uid/gid/dev/'
         'absent/mod/targ/src values in otherwise valid lines, all of them every quick run) 1 line of the space look-alike table '
         '(names and src=/targ= values with bytes 0x85, 0xA0 as in UTF-8 letters or alone, \\v \\f \\r, in every quoting style); 5 '
         'structured add-files lines as below; structured add-files lines from the '
         'documented grammar (all types incl. unknown ones, names with spaces/quotes/backslashes/tabs/UTF-8/%-verbs/'
         'escaped and wildcard asterisks, 0..5 options with valid, boundary and invalid values, bare/single/double '
         'quoting per field, blank runs) given to stage.parseLine; 3 byte-soup or damaged lines (trailing backslash, '
         'open quote, NUL, %-verbs, 3000-byte fields); 2 mod= values (simple, octal of 1..14 digits, full chmod '
         'grammar, operator-less forms, soup) given to stage.parseModString with chmod(1) run on a scratch file as '
         'referee of the reference semantics; 3 generated build roots (files, directories, symlinks, names with '
         'literal asterisks) with a package-file list and a 1..6 line add-files script (plain/wildcard add and omit '
         'for every type, absent=skip, comments, refused lines) through GenerateFileList + ReadUserFileList + '
         'Finalize -- every second run of the third of these slots (30 per quick run) is a script around a line with a WILDCARD src= below the build root '
         '(dir|file|node <target> src=$$stageroot/<dir>/<pattern>: source directories with nested non-empty subdirectories, equal base '
         'names in different subdirectories, empty subdirectories, symlinks, flat directories as controls; targets new or with '
         'members, also members with the name of a source entry but another type; omit lines on the entries the line must have made); '
         '1 add-files script through the stagemaker binary (-list stage -files -addfiles) on a stage '
         'skeleton; 1 stagemaker -generate run with -compress / -o / recipe compress lines (method read from the '
         'magic bytes of the output); 2 recipe files through the stagemaker binary (-list system -recipe, with and without -root/'
         '-profile/-atoms/-atomsfile switches); of these, 2 in 3 of the second slot are recipes whose root/profile/atomsfile '
         '(also atoms/compress/addfiles) value has white-space runs INSIDE it (2+ blanks, tabs, \\v \\f \\r, NBSP, NEL, EM SPACE), '
         'run in a per-case directory of such paths and of sibling paths that differ only in the white space, each with its own '
         'atoms (the path as written / only siblings / both exist); every 4th process-level script is named by a recipe line '
         '"addfiles <path with white-space runs>" with sibling files of other content. Non-trivial: a line with an option or quoting/escaping, every '
         'non-empty mode string, every list/process/recipe case; distinct by the input bytes',
    explanation='theorems (all inputs): parse_fields(render sl)=fields for the three documented quoting styles; '
                'parseLine/ReadUserFileList never panic on any byte string; accepted lines use only documented '
                'type/option pairs; parse_mod s=(a,o) acts on every mode as the chmod reference (GNU reading) does; '
                'uid/gid/dev values are the decimal reading within range; wildcard add/omit add/remove exactly the '
                'glob matches; a wildcard src= below the build root adds exactly the matches at their paths relative to the source directory; one bad recipe line fails the run; per structured line / recipe / script the model '
                'of the code agrees with the manual (C17_holds). Per case Coq evaluates wf, model=obs, spec(obs)',
    assumptions=[
        'constants regenerated from the source on every run (Gen/Consts.v) that the predicate or the documented part of the model rests on -- the four compressor extension tables, groupMasks / settingMasks, vdb.PermBits and FileType_* -- are compared with literals by theorem C17_constants_pinned: an edit of one of them is reported (proof obligation no longer checks) and has to be reviewed; values the manual does not state are the values of the reviewed tree',
        'chmod reference: GNU reading of POSIX chmod (sticky bit belongs to "o"), an omitted who means "a" with umask 0, '
        'regular files; two leniencies (operator-less permission letters mean +, empty/who-only clauses are no-ops) '
        'are marked and excluded when the reference is compared with chmod(1)',
        'uid=N:M is documented only by the source comment ("both the GID and UID"): either assignment order is accepted',
        'manual inconsistencies resolved as: dir accepts src= (shown in the manual\'s example), the root name "/" '
        'and signed ids (+5, -0), duplicate options, dev= together with src=, wildcards inside src=/targ= values '
        'are unspecified at line level (only "no crash" and model=code are checked there); at list level an entry that the parser model '
        'took with a wildcard src= below $$stageroot has the documented effect doc_src_wild: the matches of the pattern in the source '
        'directory (recursively for dir) appear below the name at their paths relative to the source directory -- the manual has no '
        'sentence on asterisks in src=; this reading combines its src= paragraph ("recursively copies source-directory entries") with '
        'its globbing paragraph, and uses the glob model for the set of matches',
        'filepath.Glob/Match, path.Clean, strings.TrimSpace/Fields, bufio.Scanner, strconv.ParseInt/ParseUint are '
        'modelled, not verified; names containing ? [ or a backslash not followed by * inside a globbed name, ".." '
        'components, symlinked parent directories and src= at list level other than a wildcard source below $$stageroot are outside the modelled domain (wf false)',
    ],
    trusted_extra=['/bin/chmod (GNU coreutils) as referee of Model/StageDoc.chmod_ref; the stagemaker binary is built by '
                   'the driver from the working tree with -tags verif'],
)
