PROP = dict(
    go='c17', n_quick=800, n_thorough=8000,
    coq_header='From LC Require Import Lib.Bytes Model.StageLine Model.StageDoc Model.StageWild Model.StageWildDoc Model.Recipe Model.RecipeDoc Cases.C17.\nOpen Scope string_scope.\n',
    case_type='C17.case', verdict='C17.verdict', explain='C17.model',
    rule='TODO',
    explanation='TODO',
    assumptions=[],
)
