PROP = dict(
    go='c18', n_quick=480, n_thorough=4000,
    coq_header='From LC Require Import Lib.Bytes Model.Config Cases.C18.\n',
    case_type='C18.case', verdict='C18.verdict', explain='C18.model',
    rule='structured stream: chains of 0..6 configuration files (cycles, self-loops, other spellings of a visited '
         'file, missing / directory / relative CONFIGFILE targets), every key given or omitted independently per file '
         'with absolute, unclean and relative values, comments, blank lines, CRLF, random key case and spacing; the '
         'chain head reached through -config, LAYERCONF, $HOME/.layercake or <exe>/../etc/layercake.conf with competing '
         'candidates; -basepath and LAYERROOT set or not; every 5th case adds malformed lines (unknown keys with and '
         'without value, lines without "=", documented-only spellings, duplicates, Unicode white space and letters); every 8th case is a '
         'chain whose first 1..3 files (plus -basepath/LAYERROOT) already supply all eleven settings, followed by a loop '
         'back, an unknown key, a missing file, a directory or a harmless file. '
         'Non-trivial: the chain has >= 2 files or a switch/environment override competes with a file value; distinct '
         'by the whole input',
    explanation='theorems: Load never hangs (fuel = files+2 suffices); a successful Load returns clean absolute '
                'directories; Load equals the documented reference resolution (first non-empty of switch, environment, '
                'chain files in order, default; LAYERS/EXPORTS against the effective base path; loop iff the chain '
                'revisits a file; unknown key => error); per case Coq evaluates wf, model=obs, spec(obs)',
    assumptions=['constants regenerated from the source on every run (Gen/Consts.v) that the predicate or the documented part of the model rests on -- the defaults of the directory names / base path / chroot executable and the whole settingSetup table -- are compared with literals by theorem C18_constants_pinned: an edit of one of them is reported (proof obligation no longer checks) and has to be reviewed; values the manual does not state are the values of the reviewed tree',
        'no symbolic links and no concurrent modification of the configuration files; path names shorter '
                 'than PATH_MAX and lines shorter than 64 KiB (wf bounds every string by 4000 bytes)'],
)
