PROP = dict(
    go='c19', n_quick=200, n_thorough=3000,
    coq_header='From LC Require Import Lib.Bytes Model.InUse Cases.C19.\nOpen Scope string_scope.\n',
    case_type='C19.case', verdict='C19.verdict', explain='C19.model',
    rule='inside a private mount namespace (lcv re-executes itself with CLONE_NEWNS, tmpfs scratch): a real layercake '
         'base directory (config file, init, AddLayer; 1..5 layers from families of names that are prefixes of one '
         'another, ~removed / x-suffixed sibling directories, default and custom BUILDROOT/WORKDIR/UPPERDIR names, '
         '1 in 8 with the base path reached through a symbolic link) and a generated /proc tree (1..8 processes: '
         'exe/cwd/root/fd links at depth 0..5 inside mount directories, inside the layer but outside them, in names '
         'that merely start like a mount directory or like the layer, in the layers directory itself and its '
         'neighbours, >= 256-byte targets, odd bytes, "(deleted)" suffixes, pipes/sockets; kernel threads, vanished '
         'processes, non-numeric and non-directory entries) bind-mounted over /proc. Three observation modes: '
         'in-process fs.FindLayerUsers + manage.ProbeAllLayerstate + manage.DescribeUsers (2 of 3 cases; every third '
         'case with one system call of the scan failed by strace -e inject on a helper: '
         'openat/getdents64/newfstatat/readlinkat x ENOENT/EACCES/ESRCH/other at a chosen call site); the layercake '
         'binary `status <layer>` under strace (every 12th); live helper processes (cwd, chroot, executable, open '
         'files in the layers) on the real /proc while other processes are created and reaped (every 20th). '
         'Non-trivial: >= 1 process has a link into the layers directory, or a fault was injected; distinct by '
         '(link table, layers, directory names, mode, fault position)',
    explanation='theorems (all inputs, all oracles): link_to_layer_spec, attribution_iff/_exact, '
                'reported_only_if_inside, no_prefix_confusion, inside_unique_layer, never_reported_for_prefix, '
                'unrelated_irrelevant, classification, scan_survives_vanish, scan_fails_only_if, describe_rows, '
                'describe_one_row_per_process, C19_holds; per case Coq evaluates wf, model=obs and spec(obs)',
    assumptions=[
        'the kernel reports /proc/<pid>/{exe,cwd,root,fd/*} as canonical absolute paths and answers, for a task that '
        'has exited or is inaccessible, ENOENT for lookups/stat/getdents and ENOENT or EACCES for readlink/open '
        '(C19.vanish_ok; fs/proc/base.c, fs/proc/fd.c); validated by the live runs on the real /proc',
        'real scheduler timing is sampled only by the live runs; vanish behaviour is otherwise covered at every '
        'enumerated call site of one scan by fault injection, and for all oracles by the theorem',
        'filepath.EvalSymlinks (result handed to the model as c_realdir), path.Base, os.File.Readdir (lstat of '
        'every name, ENOENT entries dropped) are modelled, not verified',
        'layers of the case are complete (build and overlay directories present); incomplete layers are C04/C08',
        'in live runs only the processes with a link into the layers directory are in the snapshot '
        '(theorem C19_unrelated_irrelevant; the tmpfs is private to the run)',
    ],
    trusted_extra=[
        'strace 6.x fault injection (-e inject=SYSCALL:error=E:when=K) and its log are trusted to fail exactly the '
        'call the log marks (INJECTED); a run whose injected call is not the intended call site is discarded',
    ],
)
