PROP = dict(
    go='c19', n_quick=200, n_thorough=3000,
    coq_header='From LC Require Import Lib.Bytes Model.InUse Cases.C19.\nOpen Scope string_scope.\n',
    case_type='C19.case', verdict='C19.verdict', explain='C19.model',
    rule='TODO',
    explanation='TODO',
    assumptions=[],
)
