PROP = dict(
    go='c20', n_quick=200, n_thorough=3000,
    coq_header=('From LC Require Import Lib.Bytes Model.MountInfo Model.FsTree Model.Kernel Model.Layers Model.Conc Cases.LC Cases.C20.\n'
                'Open Scope string_scope.\n'),
    case_type='C20.case', verdict='C20.verdict', explain='C20.model',
    rule='two real invocations of package manage (mount/mount on the same or related stacks, mount/umount of one stack) run '
         'in-process against one simulated kernel and are stepped through the mount-table seams (read of the table, '
         'mount(2), umount(2)) under a schedule: serial, strict alternation, or random; worlds are forests of 2-4 layers '
         'with non-recursive imports, optionally partly mounted. Non-trivial: the schedule truly interleaves and both '
         'invocations interact with the kernel; distinct by the whole input',
    explanation='Coq evaluates the abstract interleaving machine of Model/Conc.v on the same schedule (final table as a '
                'multiset, both call sequences, both results) and the property predicate "final table = some serial outcome"',
    assumptions=['constants regenerated from the source on every run (Gen/Consts.v) that the predicate or the documented part of the model rests on -- LayerconfigFile -- are compared with literals by theorem C20_constants_pinned: an edit of one of them is reported (proof obligation no longer checks) and has to be reviewed; values the manual does not state are the values of the reviewed tree',
        'atomicity at the granularity of the kernel interactions (table read, mount(2), umount(2)); file-system '
                 'operations in between are not interleaved', 'imports in C20 worlds are non-recursive (a mount adds exactly '
                 'its target)', 'real parallelism of two processes is represented by the schedule'],
)
