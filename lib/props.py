"""Per-property configuration of the generic driver."""

TRUSTED_BASE = [
    "Coq 8.16.1 kernel (coqc); vm_compute is used to evaluate the model, the spec predicate and the "
    "verdict on every case and for refutation witnesses; native_compute is not used",
    "no Axiom/Parameter/Admitted in the development (hygiene gate greps coq/ on every run); "
    "Print Assumptions of every property theorem is re-run on every check and quoted below",
    "hand-written Gallina models under coq/Model are MODELS of the Go code; the tie is the correspondence "
    "check: lcv (Go harness built with -tags verif against /repo's working tree) runs the real code on generated "
    "inputs and Coq evaluates model =? observation and spec(observation) for every case",
    "tools/genconsts (go/parser) regenerates coq/Gen/Consts.v from /repo on every run",
    "the harness itself (generators, canonicalisation, the Python verdict driver) is trusted to report faithfully",
    "Go standard library (strings, path, bufio, sort, strconv, os) is modelled, not verified",
]

HEADER = 'From LC Require Import Lib.Bytes %s.\nOpen Scope string_scope.\n'

PROPS = {
    'C12': dict(
        go='c12', n_quick=240, n_thorough=4000,
        coq_header='From LC Require Import Lib.Bytes Model.MountInfo Cases.C12.\nOpen Scope string_scope.\n',
        case_type='C12.case', verdict='C12.verdict', explain='C12.model',
        rule='structured stream: random mount tables (1..15 mounts, parent/child and stacked mountpoints, 0..3 '
             'optional fields, path bytes incl. space/tab/newline/backslash/UTF-8/escape look-alikes, overlay options '
             'in random order with extras and duplicates) rendered as the kernel renders them; every 5th case is a '
             'malformed mutation (correspondence only). Non-trivial: the text has an escape, an optional field, an '
             'overlay or a shadowing file system; distinct by the full mountinfo text',
        explanation='theorems: unescape(mangle s)=s for all byte strings; parse_line(render_line k)=view k; '
                    'probe(render T)=view T for every well-formed table; per case Coq evaluates wf, model=obs, spec(obs)',
        assumptions=['the kernel renders mountinfo as Model.MountInfo.render does (escape set " \\t\\n\\\\" for '
                     'paths, plus "," for overlay options); validated against real tables in the thorough tier'],
    ),
}
