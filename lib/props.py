"""Per-property configuration of the generic driver."""

TRUSTED_BASE = [
    "Coq 8.16.1 kernel (coqc); vm_compute is used to evaluate the model, the spec predicate and the "
    "verdict on every case and for refutation witnesses; native_compute is not used",
    "no Axiom/Parameter/Admitted in the development (hygiene gate greps coq/ on every run); "
    "Print Assumptions of every property theorem is re-run on every check and quoted below",
    "hand-written Gallina models under coq/Model are MODELS of the Go code; the tie is the correspondence "
    "check: lcv (Go harness built with -tags verif against /repo's working tree) runs the real code on generated "
    "inputs and Coq evaluates model =? observation and spec(observation) for every case",
    "tools/genconsts (go/parser) regenerates coq/Gen/Consts.v from /repo on every run",
    "the harness itself (generators, canonicalisation, the Python verdict driver) is trusted to report faithfully",
    "Go standard library (strings, path, bufio, sort, strconv, os) is modelled, not verified",
]


import glob, os, runpy

PROPS = {}
for _f in sorted(glob.glob(os.path.join(os.path.dirname(os.path.abspath(__file__)), 'props.d', 'C*.py'))):
    PROPS[os.path.basename(_f)[:-3]] = runpy.run_path(_f)['PROP']
