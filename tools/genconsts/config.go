package main

// Extraction of package config (property C18): the iota blocks ss_* / cfKey_* and the
// settingSetup table, as
//   CF_<name> : N                       for every constant of an iota block
//   CF_settingSetup : list cf_entry     (key, s_type, relative_to, default_value, configKey)
// default_value expressions defaults.X become D_X, string literals become (hx "..").

import (
	"fmt"
	"go/ast"
	"go/token"
	"path/filepath"
	"strconv"
	"strings"
)

func extrasConfig(fset *token.FileSet, repo string, b *strings.Builder) {
	files := parseDir(fset, filepath.Join(repo, "config"))
	b.WriteString("\n(* package config *)\n")
	consts := map[string]int{}
	for _, f := range files {
		for _, d := range f.Decls {
			gd, ok := d.(*ast.GenDecl)
			if !ok || gd.Tok != token.CONST || len(gd.Specs) == 0 {
				continue
			}
			first := gd.Specs[0].(*ast.ValueSpec)
			if len(first.Values) != 1 {
				continue
			}
			id, ok := first.Values[0].(*ast.Ident)
			if !ok || id.Name != "iota" {
				continue
			}
			for i, sp := range gd.Specs {
				vs := sp.(*ast.ValueSpec)
				if i > 0 && len(vs.Values) != 0 {
					die("config: iota block with explicit later value at %s", fset.Position(vs.Pos()))
				}
				for _, nm := range vs.Names {
					if !strings.HasPrefix(nm.Name, "ss_") && !strings.HasPrefix(nm.Name, "cfKey_") {
						continue
					}
					consts[nm.Name] = i
					fmt.Fprintf(b, "Definition CF_%s : N := %d%%N.\n", nm.Name, i)
				}
			}
		}
	}
	num := func(e ast.Expr) string {
		switch v := e.(type) {
		case *ast.Ident:
			n, ok := consts[v.Name]
			if !ok {
				die("config: unknown constant %s", v.Name)
			}
			return fmt.Sprintf("%d%%N", n)
		case *ast.BasicLit:
			if v.Kind == token.INT {
				return v.Value + "%N"
			}
		}
		die("config: unsupported numeric expression at %s", fset.Position(e.Pos()))
		return ""
	}
	str := func(e ast.Expr) string {
		switch v := e.(type) {
		case *ast.BasicLit:
			if v.Kind == token.STRING {
				s, err := strconv.Unquote(v.Value)
				if err != nil {
					die("unquote %s", v.Value)
				}
				return hx(s)
			}
		case *ast.SelectorExpr:
			if x, ok := v.X.(*ast.Ident); ok && x.Name == "defaults" {
				return "D_" + v.Sel.Name
			}
		}
		die("config: unsupported string expression at %s", fset.Position(e.Pos()))
		return ""
	}
	found := false
	for _, f := range files {
		for _, d := range f.Decls {
			gd, ok := d.(*ast.GenDecl)
			if !ok || gd.Tok != token.VAR {
				continue
			}
			for _, sp := range gd.Specs {
				vs := sp.(*ast.ValueSpec)
				if len(vs.Names) != 1 || vs.Names[0].Name != "settingSetup" || len(vs.Values) != 1 {
					continue
				}
				cl, ok := vs.Values[0].(*ast.CompositeLit)
				if !ok {
					die("config: settingSetup is not a composite literal")
				}
				var rows []string
				for _, el := range cl.Elts {
					row, ok := el.(*ast.CompositeLit)
					if !ok || len(row.Elts) != 5 {
						die("config: settingSetup row shape at %s", fset.Position(el.Pos()))
					}
					rows = append(rows, fmt.Sprintf("  (%s, %s, %s, %s, %s)", num(row.Elts[0]), num(row.Elts[1]),
						num(row.Elts[2]), str(row.Elts[3]), str(row.Elts[4])))
				}
				b.WriteString("Definition CF_settingSetup : list (N * N * N * bytes * bytes) := [\n")
				b.WriteString(strings.Join(rows, ";\n"))
				b.WriteString("\n].\n")
				found = true
			}
		}
	}
	if !found {
		die("config: settingSetup not found")
	}
}
