package main

import (
	"go/token"
	"strings"
)

// extras: tables extracted from packages other than defaults (added per property).
func extras(fset *token.FileSet, repo string, b *strings.Builder) {
	extrasC17(fset, repo, b)
}
