package main

import (
	"go/token"
	"strings"
)

// extras: tables extracted from packages other than defaults (added per property).
func extras(fset *token.FileSet, repo string, b *strings.Builder) {
	extrasConfig(fset, repo, b) // C18: config.settingSetup (config.go)
}
