package main

import (
	"go/token"
	"strings"
)

// extraFns: per-property extractors register themselves here (one extras_<prop>.go file each).
var extraFns []func(fset *token.FileSet, repo string, b *strings.Builder)

// extras: tables extracted from packages other than defaults (added per property).
func extras(fset *token.FileSet, repo string, b *strings.Builder) {
	extrasConfig(fset, repo, b) // C18: config.settingSetup (config.go)
	for _, f := range extraFns {
		f(fset, repo, b)
	}
	extrasC17(fset, repo, b)
}
