package main

// C14: constants of portage/atom (PA_*), the source text of the two regular expressions of
// portage/atom/parse.go (PA_pkgVerRE, PA_pkgCatNameRE) and the setup strings of the character
// classes of portage/parse/chartype.go (PP_*).  The hand-written matchers of
// coq/Model/AtomParse.v are pinned to these texts by lemmas in coq/Proofs/AtomParseP.v.

import (
	"fmt"
	"go/ast"
	"go/token"
	"path/filepath"
	"strconv"
	"strings"
)

func init() { extraFns = append(extraFns, c14Extras) }

// calls "<lhs> = <pkg>.<fn>(<string literal>)" anywhere in the files: lhs name -> literal
func stringCallAssignments(files []*ast.File, fn string, prefix string, b *strings.Builder) {
	for _, f := range files {
		ast.Inspect(f, func(n ast.Node) bool {
			as, ok := n.(*ast.AssignStmt)
			if !ok || len(as.Lhs) != 1 || len(as.Rhs) != 1 {
				return true
			}
			id, ok := as.Lhs[0].(*ast.Ident)
			if !ok {
				return true
			}
			call, ok := as.Rhs[0].(*ast.CallExpr)
			if !ok || len(call.Args) != 1 {
				return true
			}
			sel, ok := call.Fun.(*ast.SelectorExpr)
			if !ok || sel.Sel.Name != fn {
				return true
			}
			lit, ok := call.Args[0].(*ast.BasicLit)
			if !ok || lit.Kind != token.STRING {
				return true
			}
			s, err := strconv.Unquote(lit.Value)
			if err != nil {
				die("unquote %s", lit.Value)
			}
			fmt.Fprintf(b, "Definition %s%s : bytes := %s.\n", prefix, id.Name, hx(s))
			return true
		})
	}
}

func c14Extras(fset *token.FileSet, repo string, b *strings.Builder) {
	b.WriteString("\n(* package portage/atom: constants and regular-expression sources (C14) *)\n")
	atomFiles := parseDir(fset, filepath.Join(repo, "portage", "atom"))
	pkgConsts(atomFiles, "PA_", b)
	stringCallAssignments(atomFiles, "MustCompile", "PA_", b)
	b.WriteString("\n(* package portage/parse: character-class setup strings (C14) *)\n")
	stringCallAssignments(parseDir(fset, filepath.Join(repo, "portage", "parse")), "MakeCharTypeMap", "PP_", b)
}
