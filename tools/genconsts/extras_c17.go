package main

// C17: tables of package stage (groupMasks, settingMasks in stage/fileList.go's init)
// and the file-type / permission constants of portage/vdb/contents.go.

import (
	"fmt"
	"go/ast"
	"go/parser"
	"go/token"
	"path/filepath"
	"strconv"
	"strings"
)

// Linux values of the syscall constants the tables are written with
var unixConsts = map[string]uint64{
	"S_IRWXU": 0700, "S_IRWXG": 070, "S_IRWXO": 07,
	"S_IRUSR": 0400, "S_IWUSR": 0200, "S_IXUSR": 0100,
	"S_IRGRP": 040, "S_IWGRP": 020, "S_IXGRP": 010,
	"S_IROTH": 04, "S_IWOTH": 02, "S_IXOTH": 01,
	"S_ISUID": 04000, "S_ISGID": 02000, "S_ISVTX": 01000,
}

func evalMask(e ast.Expr, vdbConsts map[string]uint64) uint64 {
	switch x := e.(type) {
	case *ast.ParenExpr:
		return evalMask(x.X, vdbConsts)
	case *ast.BinaryExpr:
		a, b := evalMask(x.X, vdbConsts), evalMask(x.Y, vdbConsts)
		switch x.Op {
		case token.OR:
			return a | b
		case token.AND:
			return a & b
		case token.XOR:
			return a ^ b
		case token.AND_NOT:
			return a &^ b
		case token.ADD:
			return a + b
		}
		die("C17 tables: operator %s not understood", x.Op)
	case *ast.BasicLit:
		v, err := strconv.ParseUint(x.Value, 0, 64)
		if err != nil {
			die("C17 tables: literal %s", x.Value)
		}
		return v
	case *ast.SelectorExpr:
		pkg, _ := x.X.(*ast.Ident)
		if pkg != nil && pkg.Name == "unix" {
			if v, ok := unixConsts[x.Sel.Name]; ok {
				return v
			}
		}
		if pkg != nil && pkg.Name == "vdb" {
			if v, ok := vdbConsts[x.Sel.Name]; ok {
				return v
			}
		}
		die("C17 tables: unknown constant %v.%s", x.X, x.Sel.Name)
	}
	die("C17 tables: expression not understood")
	return 0
}

func extrasC17(fset *token.FileSet, repo string, b *strings.Builder) {
	// ---- vdb constants (an iota block and PermBits)
	vdbConsts := map[string]uint64{}
	f, err := parser.ParseFile(fset, filepath.Join(repo, "portage", "vdb", "contents.go"), nil, 0)
	if err != nil {
		die("parse vdb/contents.go: %v", err)
	}
	b.WriteString("\n(* package portage/vdb (contents.go) *)\n")
	for _, d := range f.Decls {
		gd, ok := d.(*ast.GenDecl)
		if !ok || gd.Tok != token.CONST {
			continue
		}
		iotaBlock := false
		for i, sp := range gd.Specs {
			vs := sp.(*ast.ValueSpec)
			if len(vs.Values) == 1 {
				if id, ok := vs.Values[0].(*ast.Ident); ok && id.Name == "iota" {
					iotaBlock = true
				} else {
					iotaBlock = false
				}
			}
			for _, nm := range vs.Names {
				var v uint64
				switch {
				case iotaBlock:
					v = uint64(i)
				case len(vs.Values) == 1:
					v = evalMask(vs.Values[0], vdbConsts)
				default:
					continue
				}
				vdbConsts[nm.Name] = v
				fmt.Fprintf(b, "Definition V_%s : N := %d%%N.\n", nm.Name, v)
			}
		}
	}
	// ---- stage tables
	f, err = parser.ParseFile(fset, filepath.Join(repo, "stage", "fileList.go"), nil, 0)
	if err != nil {
		die("parse stage/fileList.go: %v", err)
	}
	b.WriteString("\n(* package stage (fileList.go init): byte -> mask *)\n")
	found := map[string]bool{}
	ast.Inspect(f, func(n ast.Node) bool {
		as, ok := n.(*ast.AssignStmt)
		if !ok || len(as.Lhs) != 1 || len(as.Rhs) != 1 {
			return true
		}
		id, ok := as.Lhs[0].(*ast.Ident)
		if !ok || (id.Name != "groupMasks" && id.Name != "settingMasks") {
			return true
		}
		cl, ok := as.Rhs[0].(*ast.CompositeLit)
		if !ok {
			return true
		}
		items := []string{}
		for _, el := range cl.Elts {
			kv := el.(*ast.KeyValueExpr)
			kl, ok := kv.Key.(*ast.BasicLit)
			if !ok || kl.Kind != token.CHAR {
				die("C17 tables: key of %s is not a character literal", id.Name)
			}
			r, _, _, err := strconv.UnquoteChar(kl.Value[1:len(kl.Value)-1], '\'')
			if err != nil {
				die("C17 tables: %v", err)
			}
			items = append(items, fmt.Sprintf("(%d, %d)", r, evalMask(kv.Value, vdbConsts)))
		}
		fmt.Fprintf(b, "Definition S_%s : list (N * N) := [%s]%%N.\n", id.Name, strings.Join(items, "; "))
		found[id.Name] = true
		return true
	})
	if !found["groupMasks"] || !found["settingMasks"] {
		die("C17 tables: groupMasks/settingMasks not found in stage/fileList.go")
	}
}
