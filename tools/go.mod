module lctools

go 1.21
