#!/usr/bin/env python3
"""lcdiag.py <replay.json> [step] : show which components of which step the model gets wrong."""
import json, sys, os, subprocess, re
sys.path.insert(0, os.path.join(os.path.dirname(os.path.abspath(__file__)), '..', 'lib'))
import driver
d = json.load(open(sys.argv[1]))
hdr = ('From LC Require Import Lib.Bytes Model.MountInfo Model.FsTree Model.Kernel Model.Layers Cases.LC.\n'
       'Open Scope string_scope.\n' + driver.PACK_HEADER)
body = 'Definition c : LC.case := %s.\nEval vm_compute in LC.diag c.\n' % driver.pack(d['coq_case'])
if len(sys.argv) > 2:
    n = int(sys.argv[2])
    body += ('Eval vm_compute in match LC.model_at c %d with Some r => Some (LC.r_class r, LC.r_log r, LC.r_layers r, ks_tab (LC.r_ks r)) | None => None end.\n' % n)
    body += ('Eval vm_compute in match LC.model_at c %d, nth_error (LC.c_steps c) %d with Some r, Some s => let w := LC.after (LC.world_before (LC.w0 c) (LC.c_steps c) %d) s in '
             '(filter (fun e => negb (existsb (entry_beq e) (LC.wo_fs w))) (LC.r_fs r), filter (fun e => negb (existsb (entry_beq e) (LC.r_fs r))) (LC.wo_fs w)) | _, _ => ([],[]) end.\n' % (n, n, n))
os.makedirs(os.path.join(driver.RUN, 'diag'), exist_ok=True)
f = os.path.join(driver.RUN, 'diag', 'd.v')
open(f, 'w').write(hdr + body)
out = subprocess.run(['coqc', '-noglob', '-Q', driver.COQ, 'LC', f], capture_output=True, text=True)
txt = out.stdout + out.stderr
# decode lists of Ascii? print raw
print(txt[:12000])
for st, o in zip(d['input']['steps'], d['observed']):
    print(st['cmd'], st['env'], o['Res'], (o['Err'] or '')[:100])
    for op in (o['Ops'] or []):
        print('     ', op['Kind'], op['Args'])
    if o.get('Layers'):
        print('     layers', [(l['Name'], l['Base'], l['State'], l['Mounts']) for l in o['Layers']])
