#!/usr/bin/env python3
"""lcspec.py <replay.json> <Cxx> : per-step value of the property predicate."""
import json, sys, os, subprocess
sys.path.insert(0, os.path.join(os.path.dirname(os.path.abspath(__file__)), '..', 'lib'))
import driver
d = json.load(open(sys.argv[1])); pid = sys.argv[2]
hdr = ('From LC Require Import Lib.Bytes Model.MountInfo Model.FsTree Model.Kernel Model.Layers Cases.LC Cases.%s.\n'
       'Open Scope string_scope.\n' % pid + driver.PACK_HEADER)
body = ('Definition c : LC.case := %s.\n'
        'Fixpoint per (w : LC.wobs) (ss : list LC.step) : list bool := match ss with [] => [] | s :: r => %s.step_spec (LC.c_cfg c) w (LC.view_of_obs w s) :: per (LC.after w s) r end.\n'
        'Eval vm_compute in (LC.diag c, per (LC.w0 c) (LC.c_steps c)).\n') % (driver.pack(d['coq_case']), pid)
os.makedirs(os.path.join(driver.RUN, 'diag'), exist_ok=True)
f = os.path.join(driver.RUN, 'diag', 's.v')
open(f, 'w').write(hdr + body)
out = subprocess.run(['coqc', '-noglob', '-Q', driver.COQ, 'LC', f], capture_output=True, text=True)
print((out.stdout + out.stderr)[:3000])
for st, o in zip(d['input']['steps'], d['observed']):
    print(st['cmd'], {k: v for k, v in st['env'].items() if v}, st.get('users') or '', o['Res'], (o['Err'] or '')[:150])
    for op in (o['Ops'] or []):
        print('     ', op['Kind'], op['Args'])
    if o.get('Layers'):
        print('     layers', [(l['Name'], l['Base'], l['State'], len(l['Mounts'] or [])) for l in o['Layers']])
