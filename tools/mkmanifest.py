#!/usr/bin/env python3
"""Regenerate MANIFEST.json from what exists: a property is claimed when coq/Properties/Cxx.v and
lib/props.d/Cxx.py exist; everything else is listed under not_applicable with the reason below."""
import json, os, re, sys
V = os.path.dirname(os.path.dirname(os.path.abspath(__file__)))
sys.path.insert(0, os.path.join(V, 'lib'))
from props import PROPS
props = [json.loads(l) for l in open(os.path.join(V, 'properties.jsonl'))]
TEXT = json.load(open(os.path.join(V, 'tools', 'manifest_texts.json')))
hooks = [l.split()[0] for l in os.popen("git -C /repo log --format='%h %s' --grep='^verif:'").read().strip().split('\n') if l]
m = {
 "version": 1,
 "setup_cmd": "./check --setup",
 "hooks": {"guard": "verif", "enable": "go build -tags verif (the driver builds harness/cmd/lcv and both binaries with it)",
           "baseline_off_cmd": "cd /repo && go test -vet=off -count=1 ./...",
           "source_commits": list(reversed(hooks)), "add_only": True},
 "engines": [{"name": "coq-correspondence", "path": "check",
              "serves_properties": [], "kind_free_text":
              "Coq 8.16.1 development under coq/ (Gallina models of the Go code, proofs, property theorems) + Go harness under "
              "harness/ that runs the real code of /repo (in-process with -tags verif, the real binaries, and the real kernel "
              "in a private mount namespace) + lib/driver.py which evaluates model=observation and the property predicate on "
              "every case inside Coq (vm_compute) and decides"}],
 "checks": [], "not_applicable": [],
 "notes": "All properties are decided by machine-checked proof in Coq about an executable model, tied to /repo by a "
          "correspondence check on every run; see DESIGN.md.  KNOWN_FINDINGS lists repaired defects (fixed:) and known findings.",
}
for p in props:
    pid = p['id']
    have = os.path.exists(os.path.join(V, 'coq', 'Properties', pid + '.v')) and pid in PROPS
    if not have:
        m['not_applicable'].append({"property_id": pid, "reason": TEXT.get(pid, {}).get('na',
            "the correspondence check and the property predicate run, the theorems are still being proved; claimed once coq/Properties/%s.v exists" % pid)})
        continue
    t = TEXT.get(pid, {})
    m['engines'][0]['serves_properties'].append(pid)
    m['checks'].append({
        "property_id": pid, "quick_cmd": "./check %s quick" % pid, "thorough_cmd": "./check %s thorough" % pid,
        "evidence_file": "evidence/%s.json" % pid, "replay_cmd_template": "./check %s --replay {path}" % pid,
        "engine": "coq-correspondence",
        "level_claimed": {"category": "proof", "text": t.get('text', PROPS[pid].get('explanation', '')),
                          "design_ref": "DESIGN.md I.5 (row %s, as built) and Part II section 6 %s (original design); docs/" % (pid, pid)},
        "level_note": t.get('note', "Coq 8.16.1 kernel + vm_compute; no axioms (Print Assumptions quoted in the evidence on every run); "
                      "the Gallina model is hand-written and tied to the code by the correspondence check (differential, bounded by the "
                      "generators); Go standard library and the kernel are modelled, not verified"),
        "technique": t.get('technique', "Rocq/Coq proof over an executable Gallina model + model/implementation correspondence evaluated in Coq"),
    })
json.dump(m, open(os.path.join(V, 'MANIFEST.json'), 'w'), indent=1)
print('claimed', [c['property_id'] for c in m['checks']])
