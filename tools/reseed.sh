#!/bin/bash
# reseed.sh <Cxx> [extra check ids...] : re-create the scratch worktree of a stored seeded change on
# top of /repo's current main (outside /repo and /verif), apply seeded/<Cxx>/patch.diff there, run
# tools/seedcheck.sh, store the patch as rebased, and remove the worktree again.
# The change is never applied to /repo itself; the checks see it through LC_REPO.
set -u
P=$1
V=$(cd "$(dirname "$0")/.." && pwd)
S=${SEED_ROOT:-/tmp/seed}/$P; R=$S/repo; O=$S/out
SD=$V/seeded/$P${SEED_SUFFIX:-}
git -C /repo worktree remove --force $R 2>/dev/null; rm -rf $R
git -C /repo worktree prune
mkdir -p $O
cp $SD/patch.diff $SD/meta.json $O/
cp $SD/demo* $O/ 2>/dev/null
git -C /repo worktree add -q --detach $R main || exit 2
if ! git -C $R apply --3way $O/patch.diff 2> $S/apply.err; then
  echo "RESEED $P: patch does not apply to the current tree"; cat $S/apply.err | tail -5
  exit 3
fi
git -C $R reset -q          # 3-way apply stages the result; seedcheck works on the unstaged diff
if grep -q '^<<<<<<<' $(git -C $R diff --name-only | sed "s|^|$R/|") 2>/dev/null; then
  echo "RESEED $P: conflict markers after 3-way apply"; exit 3
fi
git -C $R diff > $O/patch.diff
$V/tools/seedcheck.sh "$@"
git -C /repo worktree remove --force $R; rm -rf $R $S/demo_with.out $S/demo_without.out $S/current.diff
git -C /repo worktree prune
