#!/bin/bash
# seedcheck.sh <Cxx> [extra check ids...]   (SEED_ROOT=/tmp/seed2 SEED_SUFFIX=-2 for the second round) : confirm a seeded change (tests pass, demonstration fails with the
# change and passes without) and run the quick check(s) against it; results go to seeded/<Cxx>/
set -u
export GOFLAGS=-mod=mod GOPROXY=off GOSUMDB=off GOTOOLCHAIN=local
P=$1; shift
S=${SEED_ROOT:-/tmp/seed}/$P; R=$S/repo; O=$S/out
V=$(cd "$(dirname "$0")/.." && pwd)
D=$V/seeded/$P${SEED_SUFFIX:-}; mkdir -p $D
cp $O/patch.diff $O/meta.json $D/ 2>/dev/null
cp $O/demo* $D/ 2>/dev/null
log=$D/confirm.log; : > $log
cd $R || exit 2
echo "== build + existing tests with the change" | tee -a $log
(go build ./... && go test -vet=off -count=1 ./... 2>&1 | grep -v "no test files") 2>&1 | tee -a $log
DEMO=$(python3 -c "import json,re;print(re.sub(r'\s{2,}\(.*$','',json.load(open('$O/meta.json'))['demo_cmd']))")
echo "== demonstration WITH the change: $DEMO" | tee -a $log
(cd $R && bash -c "$DEMO") > $S/demo_with.out 2>&1; with=$?
cat $S/demo_with.out >> $log
if grep -q -- "--- FAIL\|^FAIL\|VIOLAT" $S/demo_with.out; then with=1; fi
echo "exit=$with" | tee -a $log
git -C $R diff > $S/current.diff      # (git stash is shared by all worktrees: never use it here)
git -C $R apply -R $S/current.diff
echo "== demonstration WITHOUT the change" | tee -a $log
(cd $R && bash -c "$DEMO") > $S/demo_without.out 2>&1; without=$?
cat $S/demo_without.out >> $log
if grep -q -- "--- FAIL\|^FAIL\|VIOLAT" $S/demo_without.out; then without=1; fi
echo "exit=$without" | tee -a $log
git -C $R apply $S/current.diff
git -C $R status --short | grep -v '^ M' | awk '{print $2}' | while read f; do rm -rf "$R/$f"; done   # drop demo files copied in
echo "== quick checks against the changed tree" | tee -a $log
res=""
for C in $P "$@"; do
  out=$(cd $V && LC_REPO=$R ./check $C quick 2>&1 | grep -v KNOWN-FINDING | tail -4); rc=$?
  echo "--- ./check $C quick" >> $log; echo "$out" >> $log
  v=$(echo "$out" | grep -c '^VIOLATION'); nf=$(echo "$out" | grep -c 'no-failing-input-found')
  res="$res $C:violations=$v,nofail=$nf"
  echo "$C: $(echo "$out" | tail -1)"
done
echo "SUMMARY demo_with=$with demo_without=$without checks:$res" | tee -a $log
echo "$(date -u +%FT%TZ) verif=$(git -C $V rev-parse --short HEAD) demo_with=$with demo_without=$without checks:$res" >> $D/history.log
true
