#!/bin/bash
# seedsweep.sh <round: 1..7> <Cxx> [<Cyy>] : (Cyy: the property whose check is run, default Cxx) apply the stored seeded change of that round to a fresh scratch
# worktree of /repo's main, then
#  (a) run the quick check against it under the default seed WITH the corpus; if it reports a concrete
#      violation and corpus/Cxx/seeded-<id>.json does not exist yet, store that failing input there;
#  (b) run it twice more under VERIF_SEED=11 and 12 WITHOUT the seeded-* corpus entries, to measure
#      what the generators alone find.
# One line per run goes to seeded/SWEEP.log.  The worktree is removed afterwards.
set -u
export GOFLAGS=-mod=mod GOPROXY=off GOSUMDB=off GOTOOLCHAIN=local
RD=$1; P=$2; K=${3:-$2}
V=$(cd "$(dirname "$0")/.." && pwd)
case $RD in 1) SUF=""; ROOT=/tmp/sweep1;; 2) SUF="-2"; ROOT=/tmp/sweep2;; 3) SUF="-3"; ROOT=/tmp/sweep3;; 4) SUF="-4"; ROOT=/tmp/sweep4;; 5) SUF="-5"; ROOT=/tmp/sweep5;; 6) SUF="-6"; ROOT=/tmp/sweep6;; 7) SUF="-7"; ROOT=/tmp/sweep7;; esac
ID=$P$SUF; R=$ROOT/$P/repo
git -C /repo worktree remove --force $R 2>/dev/null; rm -rf $R; git -C /repo worktree prune
mkdir -p $ROOT/$P
git -C /repo worktree add -q --detach $R main || exit 2
git -C $R apply --3way $V/seeded/$ID/patch.diff 2>/dev/null || { echo "$ID patch-does-not-apply" >> $V/seeded/SWEEP.log; exit 3; }
git -C $R reset -q
cd $V
classify() { # stdin: check output
  awk '/^VIOLATION/ { if ($0 ~ /no-failing-input-found/) n++; else c++ } END { if (c>0) print "concrete"; else if (n>0) print "correspondence-only"; else print "ESCAPED" }'
}
out=$(LC_REPO=$R ./check $K quick 2>&1 | grep -v '^KNOWN')
a=$(echo "$out" | classify)
if [ "$a" = concrete ] && [ ! -f corpus/$K/seeded-$ID.json ]; then
  f=$(echo "$out" | grep '^VIOLATION' | grep -v no-failing | head -1 | sed 's/.*replay=//; s/ .*//')
  python3 - "$f" "corpus/$K/seeded-$ID.json" <<'PY'
import json,sys
d=json.load(open(sys.argv[1]))
if d.get('input') is not None: json.dump([d['input']], open(sys.argv[2],'w'))
PY
fi
b=$(VERIF_SEED=11 VERIF_NO_SEEDED_CORPUS=1 LC_REPO=$R ./check $K quick 2>&1 | grep -v '^KNOWN' | classify)
c=$(VERIF_SEED=12 VERIF_NO_SEEDED_CORPUS=1 LC_REPO=$R ./check $K quick 2>&1 | grep -v '^KNOWN' | classify)
echo "$(date -u +%FT%TZ) verif=$(git rev-parse --short HEAD) $ID check=$K default+corpus=$a seed11-generators-only=$b seed12-generators-only=$c" | tee -a seeded/SWEEP.log
git -C /repo worktree remove --force $R; rm -rf $ROOT/$P; git -C /repo worktree prune
